// cargo test -p postcard --features embedded-io-04,use-std --test <this file>
// panics on /repo at ac71069 (embedded-io-0.4.0/src/blocking.rs:92 "zero-length write."),
// passes from the fix: commit f46b86a on.
#![cfg(feature = "embedded-io-04")]
#[test]
fn full_slice_writer() {
    let mut buf = [0u8; 2];
    let r = std::panic::catch_unwind(move || postcard::to_eio("Hi!", &mut buf[..]).map(|_| ()));
    match r {
        Ok(Err(e)) => assert_eq!(e, postcard::Error::SerializeBufferFull),
        Ok(Ok(())) => panic!("Ok although the slice is too small"),
        Err(_) => panic!("to_eio PANICKED on a full embedded-io 0.4 slice writer"),
    }
}
