//! Boundary between harness and code under test: every call into postcard goes through `call`,
//! which turns a panic into a value. A panic anywhere else is a harness bug (exit 2).

use std::cell::{Cell, RefCell};
use std::panic::{catch_unwind, AssertUnwindSafe};
use std::sync::Once;

thread_local! {
    static IN_SUT: Cell<bool> = const { Cell::new(false) };
    static LAST_PANIC: RefCell<String> = const { RefCell::new(String::new()) };
}

static HOOK: Once = Once::new();

pub fn install_hook() {
    HOOK.call_once(|| {
        let default = std::panic::take_hook();
        std::panic::set_hook(Box::new(move |info| {
            if IN_SUT.with(|c| c.get()) {
                let msg = if let Some(s) = info.payload().downcast_ref::<&str>() {
                    s.to_string()
                } else if let Some(s) = info.payload().downcast_ref::<String>() {
                    s.clone()
                } else {
                    "non-string panic payload".to_string()
                };
                // file name only (no absolute paths, no line numbers that move with edits of
                // unrelated code: line is kept, it identifies the site)
                let loc = info
                    .location()
                    .map(|l| {
                        let f = l.file();
                        let short = f.rsplit('/').next().unwrap_or(f);
                        format!("{}:{}", short, l.line())
                    })
                    .unwrap_or_default();
                LAST_PANIC.with(|p| *p.borrow_mut() = format!("{msg} @ {loc}"));
            } else {
                default(info);
                eprintln!("harness error: panic outside the code under test");
                std::process::exit(2);
            }
        }));
    });
}

/// Run `f` (a call into postcard); `Err(message)` if it panicked.
pub fn call<R>(f: impl FnOnce() -> R) -> Result<R, String> {
    let prev = IN_SUT.with(|c| c.replace(true));
    let r = catch_unwind(AssertUnwindSafe(f));
    IN_SUT.with(|c| c.set(prev));
    match r {
        Ok(v) => Ok(v),
        Err(_) => Err(LAST_PANIC.with(|p| p.borrow().clone())),
    }
}
