//! Crashes are violations too. The batch runs in a child process; if the code under test walks
//! into a guard page (SIGSEGV/SIGBUS) or aborts, the child's signal handler records which run and
//! which injected fault were in flight and exits; the parent regenerates that run's trace,
//! confirms the crash by executing it alone in another child, minimises with child-process
//! executions, writes the replay file and prints the VIOLATION line.

use crate::rng::{run_seed, Rng};
use crate::runner::{trace_digest, RunCfg, Scenario};
use serde_json::{json, Value};
use std::cell::Cell;
use std::os::unix::process::ExitStatusExt;
use std::process::Command;
use std::sync::atomic::{AtomicU64, Ordering};
use std::time::Instant;

thread_local! {
    static CUR_RUN: Cell<u64> = const { Cell::new(u64::MAX) };
    static CUR_CTX: Cell<[u64; 4]> = const { Cell::new([0; 4]) };
}

static mut CRASH_PATH: *const libc::c_char = std::ptr::null();

/// pseudo signal number for "the run did not terminate"
pub const SIG_HANG: i32 = 1000;
/// a single run (one trace, all its enumerated cases) may burn this much CPU time before it counts
/// as a hang (legitimate runs: milliseconds, the heaviest about two seconds)
pub const HANG_LIMIT_MS: u64 = 40_000;

const NSLOT: usize = 64;
#[allow(clippy::declare_interior_mutable_const)]
const A0: AtomicU64 = AtomicU64::new(u64::MAX);
static SLOT_RUN: [AtomicU64; NSLOT] = [A0; NSLOT];
static SLOT_SINCE: [AtomicU64; NSLOT] = [A0; NSLOT];
#[allow(clippy::declare_interior_mutable_const)]
const A4: [AtomicU64; 4] = [A0; 4];
static SLOT_CTX: [[AtomicU64; 4]; NSLOT] = [A4; NSLOT];
static NEXT_SLOT: AtomicU64 = AtomicU64::new(0);
thread_local! {
    static MY_SLOT: Cell<usize> = const { Cell::new(usize::MAX) };
}

/// CPU time consumed so far by the thread owning `clock` (milliseconds). Deadlines are in CPU
/// time, never wall-clock: on a loaded machine a legitimate run can take arbitrarily long on the
/// wall, but it cannot burn a minute of CPU.
fn cpu_ms(clock: libc::clockid_t) -> u64 {
    let mut ts: libc::timespec = unsafe { std::mem::zeroed() };
    if unsafe { libc::clock_gettime(clock, &mut ts) } != 0 {
        return 0;
    }
    ts.tv_sec as u64 * 1000 + ts.tv_nsec as u64 / 1_000_000
}

static SLOT_CLOCK: [AtomicU64; NSLOT] = [A0; NSLOT];

fn my_slot() -> usize {
    MY_SLOT.with(|s| {
        if s.get() == usize::MAX {
            s.set(NEXT_SLOT.fetch_add(1, Ordering::SeqCst) as usize % NSLOT);
        }
        s.get()
    })
}

#[inline]
pub fn set_run(run: u64) {
    CUR_RUN.with(|c| c.set(run));
    if cfg!(miri) {
        return; // no watchdog under Miri (and no shim for pthread_getcpuclockid)
    }
    let k = my_slot();
    if SLOT_CLOCK[k].load(Ordering::Relaxed) == u64::MAX {
        let mut cid: libc::clockid_t = 0;
        if unsafe { libc::pthread_getcpuclockid(libc::pthread_self(), &mut cid) } == 0 {
            SLOT_CLOCK[k].store(cid as i64 as u64, Ordering::Relaxed);
        }
    }
    SLOT_SINCE[k].store(cpu_ms(libc::CLOCK_THREAD_CPUTIME_ID), Ordering::Relaxed);
    SLOT_RUN[k].store(run, Ordering::SeqCst);
}
/// which enumerated case / injected fault is in flight (scenario-specific meaning)
#[inline]
pub fn set_ctx(ctx: [u64; 4]) {
    let k = my_slot();
    for i in 0..4 {
        SLOT_CTX[k][i].store(ctx[i], Ordering::Relaxed);
    }
    CUR_CTX.with(|c| c.set(ctx));
}

fn put_num(buf: &mut [u8], pos: &mut usize, mut v: u64) {
    let mut tmp = [0u8; 20];
    let mut n = 0;
    loop {
        tmp[n] = b'0' + (v % 10) as u8;
        v /= 10;
        n += 1;
        if v == 0 {
            break;
        }
    }
    while n > 0 {
        n -= 1;
        if *pos < buf.len() {
            buf[*pos] = tmp[n];
            *pos += 1;
        }
    }
    if *pos < buf.len() {
        buf[*pos] = b' ';
        *pos += 1;
    }
}

extern "C" fn on_crash(sig: libc::c_int) {
    // async-signal-safe only: TLS reads of plain cells, open/write/_exit
    let run = CUR_RUN.with(|c| c.get());
    let ctx = CUR_CTX.with(|c| c.get());
    let mut buf = [0u8; 160];
    let mut pos = 0;
    put_num(&mut buf, &mut pos, sig as u64);
    put_num(&mut buf, &mut pos, run);
    for c in ctx {
        put_num(&mut buf, &mut pos, c);
    }
    if pos < buf.len() {
        buf[pos] = b'\n';
        pos += 1;
    }
    unsafe {
        if !CRASH_PATH.is_null() {
            // several threads may crash at once: append one complete record per thread with a
            // single write(2) (the parent removes the file before it starts the child and reads
            // the first complete line); truncating here could leave an empty file when another
            // thread's _exit wins the race
            let fd = libc::open(CRASH_PATH, libc::O_WRONLY | libc::O_CREAT | libc::O_APPEND, 0o644);
            if fd >= 0 {
                libc::write(fd, buf.as_ptr() as *const _, pos);
                libc::close(fd);
            }
        }
        libc::_exit(70);
    }
}

/// Child side: route fatal signals to `on_crash`.
pub fn install_crash_handler() {
    #[cfg(not(miri))]
    unsafe {
        if let Ok(p) = std::env::var("PCSIM_CRASH_FILE") {
            let c = std::ffi::CString::new(p).unwrap();
            CRASH_PATH = c.into_raw();
        }
        for sig in [libc::SIGSEGV, libc::SIGBUS, libc::SIGABRT, libc::SIGILL, libc::SIGFPE] {
            let mut sa: libc::sigaction = std::mem::zeroed();
            sa.sa_sigaction = on_crash as usize;
            sa.sa_flags = libc::SA_ONSTACK;
            libc::sigemptyset(&mut sa.sa_mask);
            libc::sigaction(sig, &sa, std::ptr::null_mut());
        }
    }
}

/// Child side: a thread that turns a run which does not terminate into a crash record
/// (pseudo signal SIG_HANG) and ends the process, so that the parent can attribute, minimise and
/// report it like any other crash. Liveness by a deadline on *one run*, far above any legitimate
/// run (milliseconds), not on the batch.
pub fn start_watchdog() {
    if cfg!(miri) {
        return;
    }
    std::thread::spawn(|| loop {
        std::thread::sleep(std::time::Duration::from_millis(500));
        for k in 0..NSLOT {
            let run = SLOT_RUN[k].load(Ordering::SeqCst);
            if run == u64::MAX {
                continue;
            }
            let clock = SLOT_CLOCK[k].load(Ordering::Relaxed);
            if clock == u64::MAX {
                continue;
            }
            let since = SLOT_SINCE[k].load(Ordering::Relaxed);
            let now = cpu_ms(clock as i64 as libc::clockid_t);
            // re-check that the same run is still in flight (the slot may have moved on)
            if since != u64::MAX
                && now.saturating_sub(since) > HANG_LIMIT_MS
                && SLOT_RUN[k].load(Ordering::SeqCst) == run
                && SLOT_SINCE[k].load(Ordering::Relaxed) == since
            {
                let mut buf = [0u8; 160];
                let mut pos = 0;
                put_num(&mut buf, &mut pos, SIG_HANG as u64);
                put_num(&mut buf, &mut pos, run);
                for i in 0..4 {
                    put_num(&mut buf, &mut pos, SLOT_CTX[k][i].load(Ordering::Relaxed));
                }
                if pos < buf.len() {
                    buf[pos] = b'\n';
                    pos += 1;
                }
                unsafe {
                    if !CRASH_PATH.is_null() {
                        let fd = libc::open(CRASH_PATH, libc::O_WRONLY | libc::O_CREAT | libc::O_APPEND, 0o644);
                        if fd >= 0 {
                            libc::write(fd, buf.as_ptr() as *const _, pos);
                            libc::close(fd);
                        }
                    }
                    libc::_exit(70);
                }
            }
        }
    });
}

pub enum ChildEnd {
    Exit(i32),
    Crash { signal: i32, run: u64, ctx: [u64; 4] },
}

fn signame(s: i32) -> &'static str {
    match s {
        libc::SIGSEGV => "SIGSEGV",
        libc::SIGBUS => "SIGBUS",
        libc::SIGABRT => "SIGABRT",
        libc::SIGILL => "SIGILL",
        libc::SIGFPE => "SIGFPE",
        libc::SIGKILL => "SIGKILL",
        SIG_HANG => "HANG (run did not terminate)",
        _ => "signal",
    }
}

/// Run this binary again as a child with `args`; classify how it ended.
pub fn spawn_child(args: &[String], crash_file: &str, quiet: bool) -> ChildEnd {
    spawn_child_limited(args, crash_file, quiet, None)
}

/// `limit`: kill the child after this long and report it as a hang.
pub fn spawn_child_limited(args: &[String], crash_file: &str, quiet: bool, limit: Option<std::time::Duration>) -> ChildEnd {
    let _ = std::fs::remove_file(crash_file);
    let exe = std::env::current_exe().unwrap_or_else(|e| {
        eprintln!("harness error: current_exe: {e}");
        std::process::exit(2)
    });
    let mut cmd = Command::new(exe);
    cmd.arg("--child").args(args).env("PCSIM_CRASH_FILE", crash_file);
    if quiet {
        cmd.stdout(std::process::Stdio::null()).stderr(std::process::Stdio::null());
    }
    let mut ch = cmd.spawn().unwrap_or_else(|e| {
        eprintln!("harness error: cannot spawn child: {e}");
        std::process::exit(2)
    });
    let t0 = Instant::now();
    let child_cpu = |pid: u32| -> std::time::Duration {
        // utime + stime of the child, from /proc (clock ticks)
        let txt = std::fs::read_to_string(format!("/proc/{pid}/stat")).unwrap_or_default();
        let after = txt.rsplit(')').next().unwrap_or("");
        let f: Vec<&str> = after.split_whitespace().collect();
        let ticks = f.get(11).and_then(|x| x.parse::<u64>().ok()).unwrap_or(0)
            + f.get(12).and_then(|x| x.parse::<u64>().ok()).unwrap_or(0);
        let hz = unsafe { libc::sysconf(libc::_SC_CLK_TCK) }.max(1) as u64;
        std::time::Duration::from_millis(ticks * 1000 / hz)
    };
    let st = loop {
        match ch.try_wait() {
            Ok(Some(st)) => break st,
            Ok(None) => {
                if let Some(l) = limit {
                    // the limit is CPU time of the child (wall-clock only as a 40x backstop)
                    if child_cpu(ch.id()) > l || t0.elapsed() > l * 40 {
                        let _ = ch.kill();
                        let _ = ch.wait();
                        let _ = std::fs::remove_file(crash_file);
                        return ChildEnd::Crash { signal: SIG_HANG, run: 0, ctx: [0; 4] };
                    }
                }
                std::thread::sleep(std::time::Duration::from_millis(if limit.is_some() { 2 } else { 20 }));
            }
            Err(e) => {
                eprintln!("harness error: waiting for child: {e}");
                std::process::exit(2)
            }
        }
    };
    let rec = std::fs::read_to_string(crash_file).ok();
    let _ = std::fs::remove_file(crash_file);
    let parse = |rec: Option<String>| -> (i32, u64, [u64; 4]) {
        // first complete record (one line of six numbers)
        let text = rec.unwrap_or_default();
        let nums: Vec<u64> = text
            .lines()
            .map(|l| l.split_whitespace().filter_map(|x| x.parse().ok()).collect::<Vec<u64>>())
            .find(|v| v.len() >= 6)
            .unwrap_or_default();
        if nums.len() >= 6 {
            (nums[0] as i32, nums[1], [nums[2], nums[3], nums[4], nums[5]])
        } else {
            (0, u64::MAX, [0; 4])
        }
    };
    match (st.code(), st.signal()) {
        (Some(70), _) => {
            let (signal, run, ctx) = parse(rec);
            ChildEnd::Crash { signal, run, ctx }
        }
        (Some(c), _) => ChildEnd::Exit(c),
        (None, Some(sig)) => {
            let (_, run, ctx) = parse(rec);
            ChildEnd::Crash { signal: sig, run, ctx }
        }
        (None, None) => ChildEnd::Exit(2),
    }
}

fn crashes<S: Scenario>(t: &S::Trace, tmp: &str, crash_file: &str) -> Option<i32> {
    std::fs::write(tmp, serde_json::to_string(t).unwrap()).ok()?;
    match spawn_child_limited(
        &["exec-trace".to_string(), S::ID.to_string(), tmp.to_string()],
        crash_file,
        true,
        Some(std::time::Duration::from_millis(HANG_LIMIT_MS / 4)),
    ) {
        ChildEnd::Crash { signal, .. } => Some(signal),
        ChildEnd::Exit(_) => None,
    }
}

/// Parent side of `run`: the batch died with a signal in run `run`.
pub fn handle_crash<S: Scenario>(cfg: &RunCfg, signal: i32, run: u64, ctx: [u64; 4]) -> i32 {
    println!(
        "child process died with {} ({}) during run {} (fault context {:?})",
        signame(signal),
        signal,
        run,
        ctx
    );
    if run == u64::MAX {
        eprintln!("harness error: crash outside any run; cannot attribute it to a trace");
        return 2;
    }
    let _ = std::fs::create_dir_all(&cfg.replay_dir);
    let tmp = format!("{}/.cand-{}.json", cfg.replay_dir, std::process::id());
    let crash_file = format!("{}/.crash-min-{}", cfg.replay_dir, std::process::id());
    let mut rng = Rng::new(run_seed(cfg.seed, S::TAG, run));
    let original = S::gen(&mut rng, cfg.tier, run);
    let mut cur = original.clone();
    let mut sig = match crashes::<S>(&cur, &tmp, &crash_file) {
        Some(s) => s,
        None => {
            eprintln!(
                "harness error: the crash of run {run} does not reproduce when its trace is executed alone"
            );
            let _ = std::fs::remove_file(&tmp);
            return 2;
        }
    };
    if let Some(n) = S::focus(&original, ctx) {
        if let Some(s) = crashes::<S>(&n, &tmp, &crash_file) {
            cur = n;
            sig = s;
        }
    }
    let t0 = Instant::now();
    let mut steps = 0u64;
    'outer: loop {
        if t0.elapsed() > cfg.minimise_budget {
            break;
        }
        for c in S::shrink(&cur) {
            if t0.elapsed() > cfg.minimise_budget {
                break 'outer;
            }
            steps += 1;
            if let Some(s) = crashes::<S>(&c, &tmp, &crash_file) {
                cur = c;
                sig = s;
                continue 'outer;
            }
        }
        break;
    }
    let _ = std::fs::remove_file(&tmp);
    let path = format!("{}/{}-{}-{}.json", cfg.replay_dir, S::ID, cfg.seed, run);
    let detail = if sig == SIG_HANG {
        format!(
            "executing this trace burnt {} s of CPU time without terminating: the code under test loops",
            HANG_LIMIT_MS / 4000
        )
    } else {
        format!(
            "the process died with {} while executing this trace: the code under test touched memory outside the buffer it was given (guard page) or aborted",
            signame(sig)
        )
    };
    let clause = if sig == SIG_HANG { "does-not-terminate" } else { "memory-fault" };
    let doc = json!({
        "property": S::ID,
        "clause": clause,
        "detail": detail,
        "key": format!("{} {}", S::ID, signame(sig)),
        "seed": cfg.seed,
        "run": run,
        "tier": cfg.tier.name(),
        "crash": true,
        "build": crate::dev::EIO_BUILD,
        "signal": sig,
        "trace": cur,
        "original_trace_digest": trace_digest(&original),
        "minimise_steps": steps,
        "events": [],
    });
    std::fs::write(&path, serde_json::to_string_pretty(&doc).unwrap()).unwrap();
    // confirm from the file
    let back: Value = crate::runner::json_parse(&std::fs::read_to_string(&path).unwrap()).unwrap();
    let t2: S::Trace = serde_json::from_value(back["trace"].clone()).unwrap();
    let tmp2 = format!("{}/.cand2-{}.json", cfg.replay_dir, std::process::id());
    let ok = crashes::<S>(&t2, &tmp2, &crash_file).is_some();
    let _ = std::fs::remove_file(&tmp2);
    if !ok {
        eprintln!("harness error: minimised crash trace in {path} does not reproduce");
        return 2;
    }
    println!("minimised in {steps} child executions: clause={clause} detail={detail}");
    println!("VIOLATION property={} replay={}", S::ID, path);
    if let Some(p) = &cfg.evidence {
        let ev = json!({
            "property_id": S::ID,
            "tier": cfg.tier.name(),
            "seed": cfg.seed,
            "level": S::LEVEL,
            "coverage": {
                "evaluations": run + 1,
                "distinct_nontrivial": 0,
                "rule": S::rule(),
                "samples": [{"run": run, "crash": signame(sig)}],
                "note": "the batch was cut short by a crash of the code under test; see the replay file",
            },
            "assumptions": S::assumptions(),
            "wall_s": 0.0,
            "violations": 1,
            "replay": path,
        });
        let _ = std::fs::write(p, serde_json::to_string_pretty(&ev).unwrap());
    }
    1
}
