//! C08 and C09: the COBS accumulator under every history of feed calls.
//!
//! World: a serial line delivers a byte stream in pieces chosen by the simulator; the receiver is
//! the real `CobsAccumulator<N>` driven by the documented re-feed loop.

use crate::refenc::{cobs_frame, cobs_frame_canonical};
use crate::rng::{Fnv, Rng};
use crate::runner::{Outcome, Scenario, Tier};
use crate::shape::{self, DynOwned, DynRef, GenCfg, Msg, Shape, Val};
use crate::sut;
use postcard::accumulator::{CobsAccumulator, FeedResult};
use serde::{Deserialize, Serialize};

pub const NS: [usize; 27] = [
    1, 2, 3, 4, 5, 6, 7, 8, 9, 10, 12, 16, 24, 32, 48, 64, 100, 128, 255, 256, 257, 300, 520, 770,
    65535, 65536, 70000,
];
/// capacities beyond 16 bits: picked rarely, with their own generator (`gen_huge`)
pub const HUGE: [usize; 3] = [65535, 65536, 70000];

#[derive(Clone, Copy, Debug, PartialEq, Eq, Serialize, Deserialize)]
pub enum SegKind {
    Valid,
    /// validly framed strict prefix of a valid encoding
    Truncated,
    WrongType,
    Corrupt,
    Empty,
    Garbage,
    OverLong,
    OverLongGarbage,
    Random,
    /// two valid frames whose separating sentinel was lost on the line
    Merged,
    /// the first part of a valid frame cut off by a spurious zero byte
    SplitHead,
    /// a valid frame whose last COBS code byte was raised so that its block claims to reach
    /// beyond the sentinel: not a COBS encoding of anything
    BadCobs,
}

/// Ground truth known by construction of the workload (not from any decoder).
#[derive(Clone, Debug, PartialEq, Eq, Serialize, Deserialize)]
pub enum Expect {
    /// the segment is the harness's own encoding + COBS framing of this value of the target type
    Value(Val),
    /// the segment is a correctly COBS-framed strict prefix of such an encoding: decoding must
    /// run out of bytes
    Error,
}

#[derive(Clone, Debug, Serialize, Deserialize)]
pub struct Seg {
    pub kind: SegKind,
    /// non-zero bytes followed by exactly one 0x00
    pub bytes: Vec<u8>,
    /// what delivering this segment must yield, when the workload knows it by construction
    #[serde(default)]
    pub expect: Option<Expect>,
}

#[derive(Clone, Debug, Serialize, Deserialize)]
pub enum Chunks {
    /// explicit chunk lengths (0 = an empty feed call); a shortfall is fed as one last chunk
    List(Vec<usize>),
    /// every composition of the stream into non-empty chunks: 2^(len-1) histories
    AllCompositions,
}

#[derive(Clone, Debug, Serialize, Deserialize)]
pub struct AccTrace {
    pub n: usize,
    pub borrowed: bool,
    pub shape: Shape,
    pub segments: Vec<Seg>,
    /// unterminated bytes after the last sentinel (no zero)
    pub tail: Vec<u8>,
    pub chunks: Chunks,
    /// move the accumulator object to another address between feed calls (Rust allows it)
    #[serde(default)]
    pub relocate: bool,
    /// copy every chunk into one reused receive buffer first, as the documented loop does
    #[serde(default)]
    pub reuse_buf: bool,
}

impl AccTrace {
    pub fn stream(&self) -> Vec<u8> {
        let mut s = Vec::new();
        for g in &self.segments {
            s.extend_from_slice(&g.bytes);
        }
        s.extend_from_slice(&self.tail);
        s
    }
    /// segments as they really are in the stream (split at zeros), whatever the labels say
    fn well_formed(&self) -> bool {
        self.segments.iter().all(|g| {
            !g.bytes.is_empty()
                && *g.bytes.last().unwrap() == 0
                && g.bytes[..g.bytes.len() - 1].iter().all(|b| *b != 0)
        }) && self.tail.iter().all(|b| *b != 0)
    }
}

// ---------------------------------------------------------------------------------------------
// one feed call, observed

#[derive(Clone, Copy, Debug, PartialEq, Eq)]
pub enum Kind {
    Consumed,
    OverFull,
    DeserError,
    Success,
    /// a result variant this harness does not know (FeedResult marked non_exhaustive / extended)
    Other,
}

impl Kind {
    fn code(self) -> u64 {
        match self {
            Kind::Consumed => 1,
            Kind::OverFull => 2,
            Kind::DeserError => 3,
            Kind::Success => 4,
            Kind::Other => 5,
        }
    }
}

pub struct Call {
    /// stream position of the first byte of the window
    pub pos: usize,
    pub window: usize,
    pub kind: Kind,
    pub data: Option<Val>,
    /// length of the returned remainder (0 for Consumed)
    pub rem: usize,
    /// remainder is the suffix of the window (same end pointer, not longer than the window)
    pub suffix: bool,
    pub idx_after: usize,
    pub buffered_after: Vec<u8>,
    /// borrowed mode: all borrows lie inside the accumulator object and still hold their bytes
    pub borrows_ok: bool,
    pub nborrows: usize,
}

fn observe<'a, T>(
    window: &'a [u8],
    r: FeedResult<'a, T>,
    get: impl FnOnce(T) -> Val,
) -> (Kind, Option<Val>, usize, bool) {
    let wend = window.as_ptr_range().end;
    // an empty remainder says "everything consumed", wherever its (possibly dangling) pointer is
    let chk = |rem: &'a [u8]| {
        (rem.len(), rem.is_empty() || (rem.as_ptr_range().end == wend && rem.len() <= window.len()))
    };
    match r {
        FeedResult::Consumed => (Kind::Consumed, None, 0, true),
        FeedResult::OverFull(rem) => {
            let (l, s) = chk(rem);
            (Kind::OverFull, None, l, s)
        }
        FeedResult::DeserError(rem) => {
            let (l, s) = chk(rem);
            (Kind::DeserError, None, l, s)
        }
        FeedResult::Success { data, remaining } => {
            let (l, s) = chk(remaining);
            (Kind::Success, Some(get(data)), l, s)
        }
        #[allow(unreachable_patterns)]
        _ => (Kind::Other, None, 0, true),
    }
}

/// State accessors of the accumulator: the cfg(postcard_verif) hook in /repo. If the hooked build
/// of postcard fails (a change to the accumulator's private fields that the hook does not survive),
/// `./check` rebuilds with `--cfg pcsim_nohook`: the state clauses are then switched off (loudly)
/// and everything that does not need them still runs.
#[cfg(not(pcsim_nohook))]
pub const HOOK: bool = true;
#[cfg(pcsim_nohook)]
pub const HOOK: bool = false;

#[cfg(not(pcsim_nohook))]
fn hook_idx<const N: usize>(acc: &CobsAccumulator<N>) -> usize {
    acc.verif_idx()
}
#[cfg(not(pcsim_nohook))]
fn hook_buffered<const N: usize>(acc: &CobsAccumulator<N>) -> Vec<u8> {
    acc.verif_buffered().to_vec()
}
#[cfg(pcsim_nohook)]
fn hook_idx<const N: usize>(_acc: &CobsAccumulator<N>) -> usize {
    0
}
#[cfg(pcsim_nohook)]
fn hook_buffered<const N: usize>(_acc: &CobsAccumulator<N>) -> Vec<u8> {
    Vec::new()
}

/// Where the accumulator under test lives: in a heap box (histories that move it around, and under
/// Miri), or — everything else — in the guarded arena, its last byte flush against a PROT_NONE page
/// and canaries in front, so that a write outside the object faults or is seen.
enum Holder<const N: usize> {
    Boxed(Box<CobsAccumulator<N>>),
    #[cfg(not(miri))]
    Arena(*mut CobsAccumulator<N>),
}

impl<const N: usize> Holder<N> {
    fn new(boxed: bool) -> Self {
        #[cfg(not(miri))]
        if !boxed
            && std::mem::size_of::<CobsAccumulator<N>>() <= crate::arena::RW
            && std::mem::size_of::<CobsAccumulator<N>>() % std::mem::align_of::<CobsAccumulator<N>>() == 0
        {
            let size = std::mem::size_of::<CobsAccumulator<N>>();
            // (a history that ended early has not released its region: restore the pattern first)
            let p = crate::arena::with_arena(|a| {
                let _ = a.raw_release(size);
                a.raw_end(size)
            }) as *mut CobsAccumulator<N>;
            if (p as usize) % std::mem::align_of::<CobsAccumulator<N>>() == 0 {
                unsafe { p.write(CobsAccumulator::new()) };
                return Holder::Arena(p);
            }
        }
        let _ = boxed;
        Holder::Boxed(Box::new(CobsAccumulator::new()))
    }
    /// offset (relative to the object) of a byte in front of it that was overwritten, if any
    fn release(self) -> Option<isize> {
        match self {
            Holder::Boxed(_) => None,
            #[cfg(not(miri))]
            Holder::Arena(_) => {
                let size = std::mem::size_of::<CobsAccumulator<N>>();
                crate::arena::with_arena(|a| a.raw_release(size))
            }
        }
    }
}

impl<const N: usize> std::ops::Deref for Holder<N> {
    type Target = CobsAccumulator<N>;
    fn deref(&self) -> &CobsAccumulator<N> {
        match self {
            Holder::Boxed(b) => b,
            #[cfg(not(miri))]
            Holder::Arena(p) => unsafe { &**p },
        }
    }
}
impl<const N: usize> std::ops::DerefMut for Holder<N> {
    fn deref_mut(&mut self) -> &mut CobsAccumulator<N> {
        match self {
            Holder::Boxed(b) => b,
            #[cfg(not(miri))]
            Holder::Arena(p) => unsafe { &mut **p },
        }
    }
}

/// One real feed call. `Err(msg)` = the call panicked.
fn feed_once<const N: usize>(
    acc: &mut CobsAccumulator<N>,
    borrowed: bool,
    pos: usize,
    window: &[u8],
) -> Result<Call, String> {
    let base = &*acc as *const CobsAccumulator<N> as usize;
    let size = std::mem::size_of::<CobsAccumulator<N>>();
    let (kind, data, rem, suffix, borrows) = if borrowed {
        shape::clear_borrows();
        let r = sut::call(|| acc.feed_ref::<DynRef>(window))?;
        let o = observe(window, r, |d: DynRef| d.0);
        (o.0, o.1, o.2, o.3, shape::take_borrows())
    } else {
        let r = sut::call(|| acc.feed::<DynOwned>(window))?;
        let o = observe(window, r, |d: DynOwned| d.0);
        (o.0, o.1, o.2, o.3, vec![])
    };
    let mut borrows_ok = true;
    for b in &borrows {
        if b.len == 0 {
            continue;
        }
        if b.addr < base || b.addr + b.len > base + size {
            borrows_ok = false;
            continue;
        }
        // inside the accumulator object, which we own: safe to look at
        let now = unsafe { std::slice::from_raw_parts(b.addr as *const u8, b.len) };
        if now != &b.copy[..] {
            borrows_ok = false;
        }
    }
    Ok(Call {
        pos,
        window: window.len(),
        kind,
        data,
        rem,
        suffix,
        idx_after: hook_idx(acc),
        buffered_after: hook_buffered(acc),
        borrows_ok,
        nborrows: borrows.len(),
    })
}

/// The statement's yardstick: the real `from_bytes_cobs` on a private copy of one segment.
/// `Err(msg)` = it panicked.
fn decode_isolated(seg: &[u8]) -> Result<Option<Val>, String> {
    let mut copy = seg.to_vec();
    sut::call(move || postcard::from_bytes_cobs::<DynOwned>(&mut copy).ok().map(|d| d.0))
}

fn chunk_list(stream_len: usize, lens: &[usize]) -> Vec<usize> {
    let mut out = Vec::new();
    let mut used = 0;
    for &l in lens {
        let l = l.min(stream_len - used);
        out.push(l);
        used += l;
        if used == stream_len && l > 0 {
            // keep trailing explicit empty chunks out: nothing left to interleave with
        }
    }
    if used < stream_len {
        out.push(stream_len - used);
    }
    out
}

fn hex(b: &[u8]) -> String {
    let mut s = String::new();
    for (i, x) in b.iter().enumerate() {
        if i >= 24 {
            s.push_str(&format!("…(+{})", b.len() - i));
            break;
        }
        s.push_str(&format!("{x:02x}"));
    }
    s
}

// ---------------------------------------------------------------------------------------------
// C08

pub struct C08;

mod p8 {
    pub const SEG_EXACT_N: usize = 0;
    pub const TAIL_EXACT_N: usize = 1;
    pub const CHUNK_3_SENTINELS: usize = 2;
    pub const SENTINEL_FIRST_IN_CHUNK: usize = 3;
    pub const SENTINEL_LAST_IN_CHUNK: usize = 4;
    pub const EMPTY_FRAME_AFTER_FRAME: usize = 5;
    pub const SUCCESS_THEN_DESERERROR_SAME_CHUNK: usize = 6;
    pub const BORROWED_SUCCESS_2_FIELDS: usize = 7;
    pub const FRAME_FROM_3_CALLS: usize = 8;
    pub const TAIL_PENDING_AT_END: usize = 9;
    pub const SUCCESS: usize = 10;
    pub const DESER_ERROR: usize = 11;
    pub const EMPTY_FEED_CALL: usize = 12;
    pub const FILL_N_MINUS_1_BEFORE_SENTINEL: usize = 13;
    pub const ISOLATED_DECODE_PANICS: usize = 14;
    pub const TRUNCATED_REJECTED: usize = 15;
    pub const HUGE_CAPACITY: usize = 16;
    pub const MORE_THAN_65535_RESULTS: usize = 17;
    pub const CANONICAL_FULL_BLOCK: usize = 18;
    pub const BAD_COBS_REJECTED: usize = 19;
    pub const DEEP_VALUE_DELIVERED: usize = 20;
    pub const NAMES: [&str; 21] = [
        "segment_of_exactly_N_bytes",
        "unterminated_tail_of_exactly_N_bytes",
        "chunk_with_3_or_more_sentinels",
        "sentinel_first_byte_of_chunk",
        "sentinel_last_byte_of_chunk",
        "empty_frame_right_after_frame",
        "success_then_desererror_in_one_chunk",
        "borrowed_success_with_2_or_more_borrows",
        "frame_assembled_from_3_or_more_calls",
        "tail_left_pending_at_end",
        "success_results",
        "desererror_results",
        "empty_feed_calls",
        "buffer_holds_N_minus_1_before_sentinel",
        "isolated_decode_panicked_segment_skipped",
        "truncated_but_correctly_framed_encoding_rejected",
        "capacity_65535_or_more",
        "more_than_65535_results_from_one_accumulator",
        "frame_in_the_cobs_paper_convention_ending_with_a_full_block_delivered",
        "segment_that_is_not_cobs_rejected",
        "value_nested_64_to_300_levels_deep_delivered",
    ];
}

const X_SWEPT_STREAMS: usize = 0;
const X_SWEEP_EXECS: usize = 1;
const X_FEED_CALLS: usize = 2;

struct SegInfo {
    calls: usize,
}

/// Execute one explicit history under C08's oracle. Returns false on violation.
fn c08_history<const N: usize>(
    t: &AccTrace,
    stream: &[u8],
    lens: &[usize],
    out: &mut Outcome<AccTrace>,
) -> bool {
    let mut acc: Holder<N> = Holder::new(t.relocate && N <= 1024);
    let mut other: Option<Box<CobsAccumulator<N>>> = None;
    let mut ncall_total = 0usize;
    let mut rawbuf: Vec<u8> = Vec::new();
    let mut pending: Vec<u8> = Vec::new(); // the reference model's only state
    let mut results = 0usize;
    let mut seg_calls = 0usize; // calls spent on the current segment
    let mut sig = Fnv::new();
    sig.usize(N);
    sig.byte(t.borrowed as u8);
    let mut nontrivial = false;
    let mut cstart = 0usize;
    let narrowed = |lens: &[usize]| {
        let mut n = t.clone();
        n.chunks = Chunks::List(lens.to_vec());
        Some(n)
    };
    macro_rules! fail {
        ($clause:expr, $($arg:tt)*) => {{
            let detail = format!($($arg)*);
            out.fail("C08", $clause, format!("N={} {}", N, $clause), detail, narrowed(lens));
            return false;
        }};
    }
    for &cl in lens {
        let chunk: &[u8] = if t.reuse_buf {
            rawbuf.clear();
            rawbuf.extend_from_slice(&stream[cstart..cstart + cl]);
            &rawbuf
        } else {
            &stream[cstart..cstart + cl]
        };
        let mut window = chunk;
        let zeros_in_chunk = chunk.iter().filter(|b| **b == 0).count();
        if zeros_in_chunk >= 3 {
            out.probe(p8::CHUNK_3_SENTINELS);
        }
        if zeros_in_chunk >= 2 {
            nontrivial = true;
        }
        if chunk.first() == Some(&0) {
            out.probe(p8::SENTINEL_FIRST_IN_CHUNK);
        }
        if chunk.last() == Some(&0) {
            out.probe(p8::SENTINEL_LAST_IN_CHUNK);
        }
        if chunk.is_empty() {
            out.probe(p8::EMPTY_FEED_CALL);
        }
        let mut prev_kind_in_chunk: Option<Kind> = None;
        let mut calls_in_chunk = 0usize;
        loop {
            let pos = cstart + (chunk.len() - window.len());
            // model step
            let zero = window.iter().position(|b| *b == 0);
            let mut seg_len = 0usize;
            let (m_kind, m_data, m_rem): (Kind, Option<Val>, usize) = match zero {
                None => {
                    pending.extend_from_slice(window);
                    (Kind::Consumed, None, 0)
                }
                Some(z) => {
                    let mut seg = std::mem::take(&mut pending);
                    seg.extend_from_slice(&window[..=z]);
                    seg_len = seg.len();
                    if seg.len() == N {
                        out.probe(p8::SEG_EXACT_N);
                    }
                    match decode_isolated(&seg) {
                        Ok(Some(v)) => (Kind::Success, Some(v), window.len() - z - 1),
                        Ok(None) => (Kind::DeserError, None, window.len() - z - 1),
                        Err(_) => {
                            // the yardstick itself panics on this segment: delivery is not what
                            // fails; skip the rest of this history
                            out.probe(p8::ISOLATED_DECODE_PANICS);
                            return true;
                        }
                    }
                }
            };
            // real step
            ncall_total += 1;
            if t.relocate && N <= 1024 && ncall_total % 2 == 0 {
                // a plain Rust move of the accumulator to a different address. Both allocations
                // stay alive for the whole history, so code that kept a pointer into the old
                // location misbehaves deterministically instead of corrupting the heap.
                let o = other.get_or_insert_with(|| Box::new(CobsAccumulator::new()));
                if let Holder::Boxed(b) = &mut acc {
                    std::mem::swap(&mut **o, &mut **b);
                    std::mem::swap(o, b);
                }
            }
            let call = match feed_once::<N>(&mut acc, t.borrowed, pos, window) {
                Ok(c) => c,
                Err(msg) => fail!(
                    "panic",
                    "feed panicked ({msg}) at stream pos {pos}, window {} bytes [{}], although every segment fits N={N}",
                    window.len(),
                    hex(window)
                ),
            };
            out.evals += 1;
            out.bytes += (call.window - call.rem) as u64;
            out.extra[X_FEED_CALLS] += 1;
            out.ev(call.kind.code(), pos as u64, call.rem as u64, || {
                format!(
                    "feed(pos={pos}, {} bytes [{}]) -> {:?} rem={} idx={}",
                    call.window,
                    hex(window),
                    call.kind,
                    call.rem,
                    call.idx_after
                )
            });
            calls_in_chunk += 1;
            seg_calls += 1;
            if calls_in_chunk > 2 * chunk.len() + 2 {
                fail!("conservation", "more than 2m+2 feed calls for a chunk of {} bytes", chunk.len());
            }
            if !call.suffix {
                fail!(
                    "conservation",
                    "remainder returned at pos {pos} is not the suffix of the window it was given (window {} bytes, remainder {} bytes)",
                    call.window,
                    call.rem
                );
            }
            if call.kind != m_kind {
                fail!(
                    "variant",
                    "feed at pos {pos} (window [{}]) returned {:?}, decoding the segment in isolation gives {:?}",
                    hex(window),
                    call.kind,
                    m_kind
                );
            }
            // A call that consumed a sentinel may also take in bytes that follow it, as long as
            // none of them is another sentinel (no result can be skipped that way): they are then
            // the start of the next frame and the model buffers them too. "What a call consumed
            // plus the remainder it returns is always the chunk" still holds literally.
            let absorbed: Option<&[u8]> = match zero {
                Some(z) if call.rem < m_rem => {
                    let extra = &window[z + 1..window.len() - call.rem];
                    if extra.contains(&0) { None } else { Some(extra) }
                }
                _ => None,
            };
            if let Some(extra) = absorbed {
                pending.extend_from_slice(extra);
            } else if call.rem != m_rem {
                fail!(
                    "conservation",
                    "feed at pos {pos} returned a remainder of {} bytes; consumed + remainder must be the chunk: expected {} bytes after the first sentinel",
                    call.rem,
                    m_rem
                );
            }
            if call.data != m_data {
                fail!(
                    "data",
                    "feed at pos {pos} delivered {:?}, isolated decode of the same segment gives {:?}",
                    call.data,
                    m_data
                );
            }
            if !call.borrows_ok {
                fail!(
                    "data",
                    "borrowed data of the value delivered at pos {pos} does not live (intact) in the accumulator's own buffer"
                );
            }
            if HOOK && (call.buffered_after != pending || call.idx_after != pending.len()) {
                fail!(
                    "state",
                    "after feed at pos {pos} the accumulator buffers {} bytes [{}] (idx {}), the model {} bytes [{}]",
                    call.buffered_after.len(),
                    hex(&call.buffered_after),
                    call.idx_after,
                    pending.len(),
                    hex(&pending)
                );
            }
            if pending.len() + 1 == N && zero.is_none() {
                out.probe(p8::FILL_N_MINUS_1_BEFORE_SENTINEL);
            }
            match call.kind {
                Kind::Success => {
                    out.probe(p8::SUCCESS);
                    if call.nborrows >= 2 {
                        out.probe(p8::BORROWED_SUCCESS_2_FIELDS);
                    }
                }
                Kind::DeserError => {
                    out.probe(p8::DESER_ERROR);
                    if prev_kind_in_chunk == Some(Kind::Success) {
                        out.probe(p8::SUCCESS_THEN_DESERERROR_SAME_CHUNK);
                    }
                }
                _ => {}
            }
            if zero.is_some() {
                // ground truth known by construction of the workload, independent of any decoder
                match t.segments.get(results).and_then(|g| g.expect.as_ref()) {
                    Some(Expect::Value(v)) => {
                        let gb = &t.segments[results].bytes;
                        if gb.len() >= 256 && crate::refenc::ends_on_block_boundary(&gb[..gb.len() - 1]) {
                            out.probe(p8::CANONICAL_FULL_BLOCK);
                        }
                        if matches!(v, Val::Opt(Some(_))) && nesting_depth(&t.shape) >= 32 && call.kind == Kind::Success {
                            out.probe(p8::DEEP_VALUE_DELIVERED);
                        }
                        if call.kind != Kind::Success || call.data.as_ref() != Some(v) {
                            fail!(
                                "well-formed-frame-delivered",
                                "segment {results} is the encoding of {:?} (COBS-framed, fits N={N}); the accumulator reported {:?} {:?}",
                                v,
                                call.kind,
                                call.data
                            );
                        }
                    }
                    Some(Expect::Error) => {
                        if call.kind != Kind::DeserError {
                            fail!(
                                "malformed-frame-rejected",
                                "segment {results} is {}; the accumulator reported {:?} {:?} instead of a deserialisation error",
                                if t.segments[results].kind == SegKind::BadCobs {
                                    "not a COBS encoding (its last code byte claims a block that reaches beyond the sentinel)"
                                } else {
                                    "a correctly framed but truncated encoding (a strict prefix of a valid one)"
                                },
                                call.kind,
                                call.data
                            );
                        }
                        if t.segments[results].kind == SegKind::BadCobs {
                            out.probe(p8::BAD_COBS_REJECTED);
                        } else {
                            out.probe(p8::TRUNCATED_REJECTED);
                        }
                    }
                    None => {}
                }
                results += 1;
                if seg_calls >= 3 {
                    out.probe(p8::FRAME_FROM_3_CALLS);
                }
                if seg_calls >= 2 {
                    nontrivial = true;
                }
                if zero == Some(0) && seg_calls == 1 && prev_kind_in_chunk.is_some() {
                    out.probe(p8::EMPTY_FRAME_AFTER_FRAME);
                }
                sig.byte(call.kind.code() as u8);
                sig.byte(seg_calls.min(4) as u8);
                sig.byte((zero == Some(0)) as u8 | ((call.rem == 0) as u8) << 1);
                sig.byte(if seg_len == N { 2 } else if seg_len + 1 == N { 1 } else { 0 });
                seg_calls = 0;
                prev_kind_in_chunk = Some(call.kind);
            }
            if call.kind == Kind::Consumed {
                break;
            }
            window = &window[window.len() - call.rem..];
            if window.is_empty() {
                break;
            }
        }
        cstart += cl;
    }
    let zeros = stream.iter().filter(|b| **b == 0).count();
    if results != zeros {
        fail!("count", "{results} results reported for {zeros} zero bytes in the stream");
    }
    if HOOK && hook_buffered(&acc) != t.tail {
        fail!(
            "state",
            "at end of stream the accumulator buffers [{}], the unterminated tail is [{}]",
            hex(&hook_buffered(&acc)),
            hex(&t.tail)
        );
    }
    if N >= 65535 {
        out.probe(p8::HUGE_CAPACITY);
    }
    if results > 65535 {
        out.probe(p8::MORE_THAN_65535_RESULTS);
    }
    if !t.tail.is_empty() {
        out.probe(p8::TAIL_PENDING_AT_END);
        if t.tail.len() == N {
            out.probe(p8::TAIL_EXACT_N);
        }
    }
    if let Some(off) = acc.release() {
        fail!(
            "out-of-bounds-write",
            "a byte {} bytes in front of the accumulator object was overwritten during this history",
            -off
        );
    }
    if nontrivial {
        out.sigs.push(sig.finish());
    }
    true
}

fn for_each_composition(len: usize, mut f: impl FnMut(&[usize]) -> bool) {
    if len == 0 {
        f(&[]);
        return;
    }
    let mut lens = Vec::with_capacity(len);
    for mask in 0u64..(1u64 << (len - 1)) {
        lens.clear();
        let mut cur = 1usize;
        for i in 0..len - 1 {
            if mask >> i & 1 == 1 {
                lens.push(cur);
                cur = 1;
            } else {
                cur += 1;
            }
        }
        lens.push(cur);
        if !f(&lens) {
            return;
        }
    }
}

fn c08_exec<const N: usize>(t: &AccTrace, out: &mut Outcome<AccTrace>) {
    let stream = t.stream();
    if !t.well_formed()
        || t.segments.iter().any(|g| g.bytes.len() > N)
        || t.tail.len() > N
    {
        out.skipped = Some("precondition_every_segment_fits_not_met");
        return;
    }
    shape::with_shape(&t.shape, || match &t.chunks {
        Chunks::List(l) => {
            let lens = chunk_list(stream.len(), l);
            c08_history::<N>(t, &stream, &lens, out);
        }
        Chunks::AllCompositions => {
            if stream.len() > 16 {
                out.skipped = Some("sweep_stream_too_long");
                return;
            }
            out.extra[X_SWEPT_STREAMS] += 1;
            for_each_composition(stream.len(), |lens| {
                out.extra[X_SWEEP_EXECS] += 1;
                c08_history::<N>(t, &stream, lens, out)
            });
        }
    });
}

macro_rules! dispatch_n {
    ($n:expr, $f:ident, $t:expr, $out:expr) => {
        match $n {
            1 => $f::<1>($t, $out),
            2 => $f::<2>($t, $out),
            3 => $f::<3>($t, $out),
            4 => $f::<4>($t, $out),
            5 => $f::<5>($t, $out),
            6 => $f::<6>($t, $out),
            7 => $f::<7>($t, $out),
            8 => $f::<8>($t, $out),
            9 => $f::<9>($t, $out),
            10 => $f::<10>($t, $out),
            12 => $f::<12>($t, $out),
            16 => $f::<16>($t, $out),
            24 => $f::<24>($t, $out),
            32 => $f::<32>($t, $out),
            48 => $f::<48>($t, $out),
            64 => $f::<64>($t, $out),
            100 => $f::<100>($t, $out),
            128 => $f::<128>($t, $out),
            255 => $f::<255>($t, $out),
            256 => $f::<256>($t, $out),
            257 => $f::<257>($t, $out),
            300 => $f::<300>($t, $out),
            520 => $f::<520>($t, $out),
            770 => $f::<770>($t, $out),
            65535 => $f::<65535>($t, $out),
            65536 => $f::<65536>($t, $out),
            70000 => $f::<70000>($t, $out),
            _ => {
                $out.skipped = Some("capacity_not_instantiated");
            }
        }
    };
}

// ---------------------------------------------------------------------------------------------
// workload generation shared by C08 / C09

fn nonzero_bytes(rng: &mut Rng, n: usize) -> Vec<u8> {
    (0..n).map(|_| 1 + rng.below(255) as u8).collect()
}

/// plain-encoding budget such that the COBS frame (with sentinel) is at most `n` bytes
fn plain_budget(n: usize) -> Option<usize> {
    if n < 2 {
        return None;
    }
    // frame = plain + 1 + floor(plain/254) + 1
    let mut p = n - 2;
    while p + 2 + p / 254 > n {
        p -= 1;
    }
    Some(p)
}

fn valid_frame(rng: &mut Rng, cfg: &GenCfg, shape: &Shape, max_frame: usize) -> Option<(Vec<u8>, Val)> {
    let pb = plain_budget(max_frame)?;
    let deep = nesting_depth(shape) >= 32;
    for _ in 0..6 {
        let mut budget = pb.min(cfg.budget) as isize;
        let val = if deep { deep_val(rng, shape) } else { shape::gen_val(rng, shape, &mut budget) };
        let m = Msg { shape: shape.clone(), val };
        let f = cobs_frame(&m.ref_encode());
        if f.len() <= max_frame {
            return Some((f, m.val));
        }
    }
    None
}

/// a correctly framed strict prefix of a valid encoding (1-3 payload bytes missing)
fn truncated_frame(rng: &mut Rng, cfg: &GenCfg, shape: &Shape, max_frame: usize) -> Option<Vec<u8>> {
    let pb = plain_budget(max_frame)?;
    for _ in 0..6 {
        let mut budget = pb.min(cfg.budget) as isize;
        let val = shape::gen_val(rng, shape, &mut budget);
        let m = Msg { shape: shape.clone(), val };
        let plain = m.ref_encode();
        if plain.is_empty() {
            continue;
        }
        let cut = if rng.chance(3, 4) { 1 } else { rng.range(1, plain.len().min(3)) };
        let f = cobs_frame(&plain[..plain.len() - cut]);
        if f.len() <= max_frame {
            return Some(f);
        }
    }
    None
}

/// a frame that is not valid COBS: the last code byte of a valid frame announces at least two
/// more bytes than lie before the sentinel (a zero byte inside a block cannot be COBS)
fn bad_cobs_frame(rng: &mut Rng, cfg: &GenCfg, shape: &Shape, max_frame: usize) -> Option<Vec<u8>> {
    let (mut f, _) = valid_frame(rng, cfg, shape, max_frame)?;
    // walk the chain of code bytes up to the sentinel
    let end = f.len() - 1;
    let mut pos = 0usize;
    let mut last = 0usize;
    while pos < end {
        last = pos;
        pos += f[pos] as usize;
    }
    if pos != end {
        return None;
    }
    let c = f[last] as usize;
    if c + 2 > 255 {
        return None;
    }
    f[last] = rng.range(c + 2, 255) as u8;
    Some(f)
}

/// a valid frame of exactly `len` bytes for shapes whose length can be tuned
fn exact_frame(rng: &mut Rng, shape: &Shape, len: usize) -> Option<(Vec<u8>, Val)> {
    if len < 3 {
        return None;
    }
    // plain = varint(len) + payload ; frame = plain + 2 + floor(plain/254)
    let guess = len.saturating_sub(2 + len / 254 + 3);
    for payload in (guess.saturating_sub(6)..(guess + 8).min(len)).rev() {
        let m = match shape {
            Shape::Bytes => Msg { shape: shape.clone(), val: Val::Bytes(nonzero_bytes(rng, payload)) },
            Shape::Str => Msg { shape: shape.clone(), val: Val::Str("k".repeat(payload)) },
            Shape::Seq(e) if **e == Shape::U8 => Msg {
                shape: shape.clone(),
                val: Val::Seq((0..payload).map(|_| Val::Uint(1 + rng.below(255) as u128)).collect()),
            },
            _ => return None,
        };
        let f = cobs_frame(&m.ref_encode());
        if f.len() == len {
            return Some((f, m.val));
        }
        if f.len() < len {
            return None;
        }
    }
    None
}

/// A frame as an encoder following the COBS paper produces it whose data ends with a full block
/// of 254 non-zero bytes (no code byte after that block): 255k + 1 bytes for k blocks.
fn canonical_full_block_frame(rng: &mut Rng, shape: &Shape, max_frame: usize) -> Option<(Vec<u8>, Val)> {
    if max_frame < 256 {
        return None;
    }
    let kmax = (max_frame - 1) / 255;
    let k = rng.range(1, kmax.min(4));
    let plain_len = 254 * k;
    for vl in 1..=3usize {
        let payload = plain_len.checked_sub(vl)?;
        let m = match shape {
            Shape::Bytes => Msg { shape: shape.clone(), val: Val::Bytes(nonzero_bytes(rng, payload)) },
            Shape::Str => Msg { shape: shape.clone(), val: Val::Str("q".repeat(payload)) },
            Shape::Seq(e) if **e == Shape::U8 => Msg {
                shape: shape.clone(),
                val: Val::Seq((0..payload).map(|_| Val::Uint(1 + rng.below(127) as u128)).collect()),
            },
            _ => return None,
        };
        let plain = m.ref_encode();
        if plain.len() == plain_len && !plain.contains(&0) {
            let f = cobs_frame_canonical(&plain);
            if f.len() == 255 * k + 1 && f.len() <= max_frame {
                return Some((f, m.val));
            }
        }
    }
    None
}

fn damage_nonzero(rng: &mut Rng, frame: &mut [u8]) {
    if frame.len() < 2 {
        return;
    }
    let i = rng.usize_below(frame.len() - 1);
    let old = frame[i];
    let mut new = 1 + rng.below(255) as u8;
    if new == old {
        new = if old == 255 { 1 } else { old + 1 };
    }
    frame[i] = new;
}

fn pick_n(rng: &mut Rng) -> usize {
    if crate::runner::small() {
        return NS[rng.usize_below(13)]; // 1..=24
    }
    // small capacities are where boundaries interact most; large ones cover 0xFF COBS blocks
    match rng.below(10) {
        0..=4 => NS[rng.usize_below(12)],
        5..=7 => NS[12 + rng.usize_below(6)],
        _ => NS[18 + rng.usize_below(6)],
    }
}

/// A target type nested `k` levels deep (options, every third level a one-element tuple) around a
/// `u8`: k + 1 - k/3 bytes on the wire at most.
fn deep_shape(k: usize) -> Shape {
    let mut s = Shape::U8;
    for i in 0..k {
        s = if i % 3 == 2 { Shape::Tuple(vec![s]) } else { Shape::Option(Box::new(s)) };
    }
    s
}

fn nesting_depth(s: &Shape) -> usize {
    let mut d = 0;
    let mut cur = s;
    loop {
        match cur {
            Shape::Option(inner) => cur = inner,
            Shape::Tuple(f) if f.len() == 1 => cur = &f[0],
            _ => return d,
        }
        d += 1;
    }
}

/// a value of a `deep_shape`: `Some` all the way down (or down to a `None` at a chosen level)
fn deep_val(rng: &mut Rng, s: &Shape) -> Val {
    let depth = nesting_depth(s);
    let stop = match rng.below(4) {
        0 | 1 => depth + 1, // never: the innermost u8 is reached
        2 => depth.saturating_sub(1),
        _ => rng.range(depth / 2, depth),
    };
    fn go(rng: &mut Rng, s: &Shape, level: usize, stop: usize) -> Val {
        match s {
            Shape::Option(inner) => {
                if level >= stop {
                    Val::Opt(None)
                } else {
                    Val::Opt(Some(Box::new(go(rng, inner, level + 1, stop))))
                }
            }
            Shape::Tuple(f) if f.len() == 1 => Val::Seq(vec![go(rng, &f[0], level + 1, stop)]),
            _ => Val::Uint(rng.below(256) as u128),
        }
    }
    go(rng, s, 0, stop)
}

fn target_shape(rng: &mut Rng, cfg: &GenCfg, n: usize) -> Shape {
    // now and then a type nested far deeper than the generator's usual four levels
    if n >= 70 && !crate::runner::small() && rng.chance(1, 30) {
        let ks: Vec<usize> = [64usize, 100, 127, 128, 129, 200, 300].iter().copied().filter(|k| k + 3 <= n).collect();
        if !ks.is_empty() {
            return deep_shape(*rng.pick(&ks));
        }
    }
    match rng.below(8) {
        0 => Shape::Bytes,
        1 => Shape::Str,
        2 => Shape::Seq(Box::new(Shape::U8)),
        3 if n <= 4 => Shape::U8,
        _ => shape::gen_shape(rng, cfg, 0),
    }
}

#[derive(Clone, Copy, PartialEq, Eq)]
enum Family {
    Whole,
    OneByte,
    Uniform,
    Geometric,
    AroundSentinels,
    FillBeforeSentinel,
}

fn gen_chunks(rng: &mut Rng, stream: &[u8], n: usize) -> Vec<usize> {
    let len = stream.len();
    if len == 0 {
        return if rng.chance(1, 2) { vec![0] } else { vec![] };
    }
    let fam = *rng.pick(&[
        Family::Whole,
        Family::OneByte,
        Family::Uniform,
        Family::Uniform,
        Family::Geometric,
        Family::AroundSentinels,
        Family::AroundSentinels,
        Family::FillBeforeSentinel,
    ]);
    let mut cuts: Vec<usize> = Vec::new(); // positions 1..len-1 where a new chunk starts
    match fam {
        Family::Whole => {}
        Family::OneByte => cuts.extend(1..len),
        Family::Uniform => {
            let k = *rng.pick(&[2usize, 3, 5, 8, 32, n.max(1), n + 1]);
            let mut p = 0;
            loop {
                p += rng.range(1, k.max(1));
                if p >= len {
                    break;
                }
                cuts.push(p);
            }
        }
        Family::Geometric => {
            let mut p = 0;
            loop {
                p += 1 + rng.small(40);
                if p >= len {
                    break;
                }
                cuts.push(p);
            }
        }
        Family::AroundSentinels => {
            for (z, b) in stream.iter().enumerate() {
                if *b == 0 {
                    match rng.below(5) {
                        0 => cuts.push(z),         // sentinel first in its chunk
                        1 => cuts.push(z + 1),     // sentinel last in its chunk
                        2 => cuts.push(z + 2),     // one byte of the next frame rides along
                        3 => {
                            cuts.push(z);
                            cuts.push(z + 1);      // sentinel alone
                        }
                        _ => {}
                    }
                }
            }
        }
        Family::FillBeforeSentinel => {
            // cut right before each sentinel: the buffer holds len-1 bytes (N-1 for an exact fit)
            let mut seg_start = 0;
            for (z, b) in stream.iter().enumerate() {
                if *b == 0 {
                    cuts.push(z);
                    if rng.chance(1, 2) && z > seg_start + 1 {
                        cuts.push(seg_start + rng.range(1, z - seg_start - 1));
                    }
                    seg_start = z + 1;
                }
            }
            // and fill the buffer to N / N-1 inside long segments
            if n < len {
                cuts.push(n);
                if n > 1 {
                    cuts.push(n - 1);
                }
            }
        }
    }
    cuts.retain(|c| *c >= 1 && *c < len);
    cuts.sort_unstable();
    cuts.dedup();
    let mut lens = Vec::with_capacity(cuts.len() + 1);
    let mut prev = 0;
    let empties = rng.chance(1, 4);
    for c in cuts.iter().chain(std::iter::once(&len)) {
        if empties && rng.chance(1, 4) {
            lens.push(0);
        }
        lens.push(c - prev);
        prev = *c;
    }
    if empties && rng.chance(1, 2) {
        lens.push(0);
    }
    lens
}

struct GenOpts {
    /// allow segments / tail longer than N and arbitrary garbage (C09)
    overflow: bool,
    max_stream: usize,
    max_segments: usize,
}

fn gen_acc_trace(rng: &mut Rng, o: &GenOpts, sweep_len: Option<usize>) -> AccTrace {
    let n = match sweep_len {
        Some(_) => NS[rng.usize_below(11)],
        None => pick_n(rng),
    };
    let cfg = GenCfg::swarm(rng, n.min(600));
    let shape = match sweep_len {
        Some(_) => match rng.below(4) {
            0 => Shape::U8,
            1 => Shape::Bytes,
            2 => Shape::Tuple(vec![Shape::U8, Shape::Bool]),
            _ => target_shape(rng, &cfg, n),
        },
        None => target_shape(rng, &cfg, n),
    };
    let other = if rng.chance(1, 2) { Shape::U64 } else { Shape::Tuple(vec![Shape::Bool, Shape::Str]) };
    let max_stream = sweep_len.unwrap_or(o.max_stream);
    let nseg = match sweep_len {
        Some(_) => rng.range(1, 5),
        None => rng.range(0, o.max_segments),
    };
    let mut segments: Vec<Seg> = Vec::new();
    let mut total = 0usize;
    for _ in 0..nseg {
        let room = max_stream.saturating_sub(total);
        if room == 0 {
            break;
        }
        let fit = n.min(room);
        let roll = rng.below(if o.overflow { 15 } else { 11 });
        let mk = |kind: SegKind, bytes: Vec<u8>, expect: Option<Expect>| Seg { kind, bytes, expect };
        let empty = || Seg { kind: SegKind::Empty, bytes: vec![0], expect: None };
        let seg = match roll {
            0..=3 => {
                let exact = rng.chance(1, 4) && fit == n;
                let f = if fit >= 256 && rng.chance(1, 5) {
                    canonical_full_block_frame(rng, &shape, fit)
                } else if exact {
                    exact_frame(rng, &shape, n)
                } else {
                    None
                };
                match f.or_else(|| valid_frame(rng, &cfg, &shape, fit)) {
                    Some((b, v)) => mk(SegKind::Valid, b, Some(Expect::Value(v))),
                    None => empty(),
                }
            }
            4 => match valid_frame(rng, &cfg, &other, fit) {
                Some((b, _)) => mk(SegKind::WrongType, b, None),
                None => empty(),
            },
            5 => match valid_frame(rng, &cfg, &shape, fit) {
                Some((mut b, _)) => {
                    damage_nonzero(rng, &mut b);
                    mk(SegKind::Corrupt, b, None)
                }
                None => empty(),
            },
            6 => empty(),
            7..=9 => {
                let l = match rng.below(4) {
                    0 => fit,
                    1 => fit.saturating_sub(1).max(1),
                    _ => rng.range(1, fit),
                };
                let mut b = nonzero_bytes(rng, l - 1);
                b.push(0);
                mk(SegKind::Garbage, b, None)
            }
            10 => match rng.below(4) {
                0 => match truncated_frame(rng, &cfg, &shape, fit) {
                    Some(b) => mk(SegKind::Truncated, b, Some(Expect::Error)),
                    None => empty(),
                },
                3 => match bad_cobs_frame(rng, &cfg, &shape, fit) {
                    Some(b) => mk(SegKind::BadCobs, b, Some(Expect::Error)),
                    None => empty(),
                },
                1 => {
                    // sentinel lost: two frames arrive glued together
                    let half = (fit / 2).max(2);
                    match (valid_frame(rng, &cfg, &shape, half), valid_frame(rng, &cfg, &shape, half)) {
                        (Some((mut a, _)), Some((b, _))) if a.len() + b.len() - 1 <= fit => {
                            a.pop();
                            a.extend_from_slice(&b);
                            mk(SegKind::Merged, a, None)
                        }
                        _ => empty(),
                    }
                }
                _ => {
                    // spurious zero: only the head of a frame, terminated early
                    match valid_frame(rng, &cfg, &shape, fit) {
                        Some((f, _)) if f.len() >= 3 => {
                            let keep = rng.range(1, f.len() - 2);
                            let mut h = f[..keep].to_vec();
                            h.push(0);
                            mk(SegKind::SplitHead, h, None)
                        }
                        _ => empty(),
                    }
                }
            },
            11 | 12 => {
                // over-long *valid* frame: a frame of the target type longer than N
                let want = (n + 1 + rng.small(2 * n + 8)).min(room.max(n + 1));
                let f = exact_frame(rng, &shape, want).map(|x| x.0).or_else(|| {
                    let m = Msg { shape: Shape::Bytes, val: Val::Bytes(nonzero_bytes(rng, want.saturating_sub(3))) };
                    Some(cobs_frame(&m.ref_encode()))
                });
                let b = f.unwrap();
                if b.len() > n {
                    mk(SegKind::OverLong, b, None)
                } else {
                    mk(SegKind::Garbage, b, None)
                }
            }
            _ => {
                let l = match rng.below(4) {
                    0 => n + 1,
                    1 => n + 2,
                    2 => 2 * n + 1,
                    _ => n + 1 + rng.small(3 * n + 20),
                };
                let mut b = nonzero_bytes(rng, l - 1);
                b.push(0);
                mk(SegKind::OverLongGarbage, b, None)
            }
        };
        total += seg.bytes.len();
        segments.push(seg);
    }
    let room = max_stream.saturating_sub(total);
    let tail = match rng.below(6) {
        0 | 1 | 2 => vec![],
        3 => nonzero_bytes(rng, n.min(room)),
        4 if o.overflow => {
            let l = (n + 1 + rng.small(n + 4)).min(room.max(1));
            nonzero_bytes(rng, l)
        }
        _ => {
            let m = n.min(room);
            let l = if m == 0 { 0 } else { rng.range(0, m) };
            nonzero_bytes(rng, l)
        }
    };
    let mut t = AccTrace {
        n,
        borrowed: rng.chance(1, 3),
        shape,
        segments,
        tail,
        chunks: Chunks::AllCompositions,
        relocate: rng.chance(1, 4),
        reuse_buf: rng.chance(1, 3),
    };
    if sweep_len.is_none() {
        let s = t.stream();
        t.chunks = Chunks::List(gen_chunks(rng, &s, n));
    } else if crate::runner::small() && t.stream().len() > 8 {
        // interpreter-sized runs: an over-long segment can push the stream past the sweep length
        // that was asked for; 2^13 histories are too many for Miri
        let s = t.stream();
        t.chunks = Chunks::List(gen_chunks(rng, &s, n));
    }
    t
}

/// Capacities of 65535 bytes and more: frames and over-long segments around the 16-bit boundary
/// of the fill level.
fn gen_huge(rng: &mut Rng, overflow: bool) -> AccTrace {
    let n = *rng.pick(&HUGE);
    // a byte array, or (a third of the time) a sequence of more than 65 535 one-byte elements
    let shape = if rng.chance(1, 3) { Shape::Seq(Box::new(Shape::U8)) } else { Shape::Bytes };
    let shape_c = shape.clone();
    let small = move |rng: &mut Rng| -> Seg {
        let k = rng.range(0, 6);
        let v = match &shape_c {
            Shape::Bytes => Val::Bytes(nonzero_bytes(rng, k)),
            _ => Val::Seq((0..k).map(|_| Val::Uint(1 + rng.below(255) as u128)).collect()),
        };
        let m = Msg { shape: shape_c.clone(), val: v };
        Seg { kind: SegKind::Valid, bytes: cobs_frame(&m.ref_encode()), expect: Some(Expect::Value(m.val)) }
    };
    let mut segments = Vec::new();
    if rng.chance(1, 2) {
        segments.push(small(rng));
    }
    let big_len = |rng: &mut Rng, n: usize| -> usize {
        let cands = [n, n - 1, 65535, 65536, 65537, 65534, 66000];
        let c = *rng.pick(&cands);
        c.min(n)
    };
    if overflow && rng.chance(2, 3) {
        let l = match rng.below(4) {
            0 => n + 1,
            1 => 65536 + 1 + rng.small(40),
            2 => 2 * n + 5,
            _ => n + 1 + rng.range(0, 70000),
        }
        .max(n + 1);
        let mut b = nonzero_bytes(rng, l - 1);
        b.push(0);
        segments.push(Seg { kind: SegKind::OverLongGarbage, bytes: b, expect: None });
    } else {
        let l = big_len(rng, n);
        match exact_frame(rng, &shape, l) {
            Some((b, v)) => segments.push(Seg { kind: SegKind::Valid, bytes: b, expect: Some(Expect::Value(v)) }),
            None => segments.push(small(rng)),
        }
    }
    for _ in 0..rng.range(0, 2) {
        segments.push(small(rng));
    }
    let tail = match rng.below(4) {
        0 => nonzero_bytes(rng, n),
        1 if overflow => {
            let k = n + 1 + rng.small(20);
            nonzero_bytes(rng, k)
        }
        2 => nonzero_bytes(rng, 65536.min(n)),
        _ => vec![],
    };
    let mut t = AccTrace {
        n,
        borrowed: rng.chance(1, 3),
        shape,
        segments,
        tail,
        chunks: Chunks::List(vec![]),
        relocate: false,
        reuse_buf: rng.chance(1, 3),
    };
    let total = t.stream().len();
    let k = *rng.pick(&[700usize, 4096, 65535, 65536, n, n + 1, usize::MAX / 2]);
    let mut lens = Vec::new();
    let mut used = 0;
    while used < total {
        let l = if k >= total { total } else { rng.range(k / 2 + 1, k) }.min(total - used);
        lens.push(l);
        used += l;
    }
    t.chunks = Chunks::List(lens);
    t
}

/// A long-lived accumulator: hundreds to thousands of small frames through one object (state that
/// is carried over, wraps or accumulates only shows after many operations).
fn gen_long(rng: &mut Rng, overflow: bool) -> AccTrace {
    let count = *rng.pick(&[300usize, 257, 513, 1000, 2000]);
    gen_long_with(rng, overflow, count)
}

/// More frames through one accumulator than 16 bits can count.
fn gen_very_long(rng: &mut Rng, overflow: bool) -> AccTrace {
    let count = *rng.pick(&[65535usize, 65536, 65537, 66000, 70000]);
    gen_long_with(rng, overflow, count)
}

fn gen_long_with(rng: &mut Rng, overflow: bool, count: usize) -> AccTrace {
    let n = if count > 60000 { *rng.pick(&[4usize, 8, 16]) } else { *rng.pick(&[4usize, 8, 16, 32, 64]) };
    let cfg = GenCfg { max_depth: 1, max_fan: 2, budget: n.saturating_sub(2).min(6), kinds: shape::K_ALL };
    let shape = match rng.below(3) {
        0 => Shape::U8,
        1 => Shape::Bytes,
        _ => Shape::Tuple(vec![Shape::U8, Shape::Bool]),
    };
    let mut segments = Vec::with_capacity(count);
    // a third of the long histories consist of one class of result only: hundreds (or tens of
    // thousands) of failures in a row without a delivered frame in between
    let streak = match rng.below(9) {
        0 => Some(1u64),                // garbage that fits: a deserialisation error each
        1 => Some(if overflow { 2 } else { 0 }), // over-long garbage / empty frames
        2 => Some(0),
        _ => None,
    };
    for _ in 0..count {
        let seg = match streak.unwrap_or_else(|| rng.below(12)) {
            0 => Seg { kind: SegKind::Empty, bytes: vec![0], expect: None },
            1 => {
                let l = rng.range(1, n);
                let mut b = nonzero_bytes(rng, l - 1);
                b.push(0);
                Seg { kind: SegKind::Garbage, bytes: b, expect: None }
            }
            2 if overflow => {
                let l = n + 1 + rng.small(n);
                let mut b = nonzero_bytes(rng, l - 1);
                b.push(0);
                Seg { kind: SegKind::OverLongGarbage, bytes: b, expect: None }
            }
            _ => match valid_frame(rng, &cfg, &shape, n.min(8)) {
                Some((b, v)) => Seg { kind: SegKind::Valid, bytes: b, expect: Some(Expect::Value(v)) },
                None => Seg { kind: SegKind::Empty, bytes: vec![0], expect: None },
            },
        };
        segments.push(seg);
    }
    let mut t = AccTrace {
        n,
        borrowed: rng.chance(1, 3),
        shape,
        segments,
        tail: vec![],
        chunks: Chunks::List(vec![]),
        relocate: rng.chance(1, 4),
        reuse_buf: rng.chance(1, 2),
    };
    let total = t.stream().len();
    let k = *rng.pick(&[1usize, 3, 7, 32, 255, 256, 4096]);
    let mut lens = Vec::new();
    let mut used = 0;
    while used < total {
        let l = rng.range(1, k).min(total - used);
        lens.push(l);
        used += l;
    }
    t.chunks = Chunks::List(lens);
    t
}

fn shrink_acc(t: &AccTrace) -> Vec<AccTrace> {
    let mut out = Vec::new();
    if t.segments.len() > 16 {
        // long histories: halves and quarters first
        let n = t.segments.len();
        for (a, b) in [(0, n / 2), (n / 2, n), (0, n / 4), (n / 4, n / 2), (n / 2, 3 * n / 4), (3 * n / 4, n)] {
            let mut c = t.clone();
            c.segments.drain(a..b);
            c.chunks = Chunks::List(vec![]);
            out.push(c.clone());
            // same cut, but keep a chunking of the same granularity
            if let Chunks::List(l) = &t.chunks {
                if let Some(k) = l.iter().copied().filter(|x| *x > 0).max() {
                    let total = c.stream().len();
                    c.chunks = Chunks::List(vec![k; total / k + 1]);
                    out.push(c);
                }
            }
        }
    }
    // drop segments
    for i in 0..t.segments.len().min(64) {
        let mut c = t.clone();
        c.segments.remove(i);
        out.push(c);
    }
    if !t.tail.is_empty() {
        let mut c = t.clone();
        c.tail.clear();
        out.push(c);
        let mut c = t.clone();
        c.tail.truncate(t.tail.len() / 2);
        out.push(c);
        let mut c = t.clone();
        c.tail.pop();
        out.push(c);
    }
    // simpler chunkings
    if let Chunks::List(l) = &t.chunks {
        let total: usize = t.stream().len();
        let l = chunk_list(total, l);
        if l.len() > 1 {
            let mut c = t.clone();
            c.chunks = Chunks::List(vec![]);
            out.push(c);
        }
        if l.iter().any(|x| *x == 0) {
            let mut c = t.clone();
            c.chunks = Chunks::List(l.iter().copied().filter(|x| *x != 0).collect());
            out.push(c);
        }
        for i in 0..l.len().saturating_sub(1) {
            let mut m = l.clone();
            m[i] += m[i + 1];
            m.remove(i + 1);
            let mut c = t.clone();
            c.chunks = Chunks::List(m);
            out.push(c);
        }
    }
    // smaller capacity
    if let Some(p) = NS.iter().position(|x| *x == t.n) {
        if p > 0 {
            let mut c = t.clone();
            c.n = NS[p - 1];
            out.push(c);
        }
        // smaller capacity with every length rescaled so that its relation to the capacity is
        // kept (exactly N stays exactly N', k bytes over stays k bytes over, shorter stays shorter)
        for &n2 in NS[..p].iter().rev().take(6).chain(NS[..p.min(3)].iter()) {
            let fit = |len: usize| -> usize {
                if len == t.n {
                    n2
                } else if len > t.n {
                    n2 + (len - t.n).min(n2 + 2)
                } else if len + 1 == t.n {
                    n2.saturating_sub(1)
                } else {
                    len.min(n2.saturating_sub(2))
                }
            };
            let mut c = t.clone();
            c.n = n2;
            let mut changed = false;
            for g in c.segments.iter_mut() {
                let want = fit(g.bytes.len()).max(1);
                if want < g.bytes.len() {
                    let cut = g.bytes.len() - want;
                    let at = (g.bytes.len() - 1 - cut) / 2;
                    g.bytes.drain(at..at + cut);
                    g.expect = None;
                    changed = true;
                }
            }
            let want = fit(c.tail.len());
            if want < c.tail.len() {
                c.tail.truncate(want);
                changed = true;
            }
            if changed {
                c.chunks = match &c.chunks {
                    Chunks::AllCompositions => Chunks::AllCompositions,
                    Chunks::List(l) if l.len() <= 1 => Chunks::List(vec![]),
                    // keep the shape of the chunking: same number of roughly equal chunks
                    Chunks::List(l) => {
                        let total = c.stream().len();
                        let k = l.iter().filter(|x| **x > 0).count().max(1);
                        Chunks::List(vec![total.div_ceil(k).max(1); k])
                    }
                };
                out.push(c);
            }
        }
    }
    if t.borrowed {
        let mut c = t.clone();
        c.borrowed = false;
        out.push(c);
    }
    if t.relocate {
        let mut c = t.clone();
        c.relocate = false;
        out.push(c);
    }
    if t.reuse_buf {
        let mut c = t.clone();
        c.reuse_buf = false;
        out.push(c);
    }
    // shorter segments: drop one payload byte
    for i in 0..t.segments.len() {
        let b = &t.segments[i].bytes;
        if b.len() > 1 {
            for j in [0, (b.len() - 1) / 2, b.len() - 2] {
                if j < b.len() - 1 {
                    let mut c = t.clone();
                    c.segments[i].bytes.remove(j);
                    c.segments[i].expect = None;
                    out.push(c);
                }
            }
            if b.len() > 3 {
                let mut c = t.clone();
                let keep = (b.len() - 1) / 2;
                c.segments[i].bytes.drain(keep..b.len() - 1);
                c.segments[i].expect = None;
                out.push(c);
            }
        }
        // simpler byte values
        if b[..b.len() - 1].iter().any(|x| *x != 1) {
            let mut c = t.clone();
            for x in c.segments[i].bytes.iter_mut() {
                if *x != 0 {
                    *x = 1;
                }
            }
            c.segments[i].expect = None;
            out.push(c);
        }
    }
    // simpler target type
    let rank = |s: &Shape| match s {
        Shape::Unit => 0,
        Shape::U8 => 1,
        Shape::Bytes => 2,
        _ => 3,
    };
    for s in [Shape::Unit, Shape::U8, Shape::Bytes] {
        if rank(&s) < rank(&t.shape) {
            let mut c = t.clone();
            c.shape = s;
            for g in c.segments.iter_mut() {
                g.expect = None;
            }
            out.push(c);
        }
    }
    out
}

impl Scenario for C08 {
    type Trace = AccTrace;
    const ID: &'static str = "C08";
    const TAG: u64 = 0xC08;
    const LEVEL: &'static str = "exploration";
    fn probe_names() -> &'static [&'static str] {
        &p8::NAMES
    }
    fn fault_names() -> &'static [&'static str] {
        &[]
    }
    fn extra_names() -> &'static [&'static str] {
        &["streams_swept_over_all_compositions", "sweep_executions", "feed_calls"]
    }
    fn default_runs(tier: Tier) -> u64 {
        match tier {
            Tier::Quick => 3_000_000,
            Tier::Thorough => 120_000_000,
        }
    }
    fn gen(rng: &mut Rng, tier: Tier, run: u64) -> AccTrace {
        let o = GenOpts { overflow: false, max_stream: 1200, max_segments: 8 };
        let sweep_every = match tier {
            Tier::Quick => 256,
            Tier::Thorough => 512,
        };
        if crate::runner::small() {
            // Miri tier: small capacities, short streams, short sweeps
            let o = GenOpts { overflow: false, max_stream: 40, max_segments: 4 };
            let l = rng.range(2, 6);
            return if run % 4 == 0 { gen_acc_trace(rng, &o, Some(l)) } else { gen_acc_trace(rng, &o, None) };
        }
        if run % sweep_every == 0 {
            let l = match tier {
                Tier::Quick => rng.range(2, 12),
                Tier::Thorough => if rng.chance(1, 8) { rng.range(15, 16) } else { rng.range(2, 14) },
            };
            gen_acc_trace(rng, &o, Some(l))
        } else if run % 197 == 1 {
            gen_huge(rng, false)
        } else if run % 997 == 2 {
            gen_long(rng, false)
        } else if run % 49_999 == 3 && !crate::runner::small() {
            gen_very_long(rng, false)
        } else {
            gen_acc_trace(rng, &o, None)
        }
    }
    fn exec(t: &AccTrace, out: &mut Outcome<AccTrace>) {
        dispatch_n!(t.n, c08_exec, t, out)
    }
    fn shrink(t: &AccTrace) -> Vec<AccTrace> {
        shrink_acc(t)
    }
    fn rule() -> &'static str {
        "one case = one history: a byte stream of zero-terminated segments (valid / wrong-type / corrupt / empty frames, garbage; every segment and the tail fit N) cut into feed calls by a seeded chunker (whole, 1-byte, uniform, geometric, around sentinels, fill-to-N-1-before-sentinel, optionally with empty calls), or — for streams up to 12 (thorough: 16) bytes — every one of the 2^(len-1) compositions. distinct_nontrivial counts distinct signatures (N, owned/borrowed, per result: variant, number of calls the segment spanned (capped at 4), sentinel first/last in its window, near-capacity class) of histories in which at least one segment spans two or more calls or one chunk holds two or more sentinels."
    }
    fn real_components() -> &'static [&'static str] {
        &[
            "postcard::accumulator::CobsAccumulator::{feed, feed_ref} (cfg postcard_verif accessors for state)",
            "postcard::from_bytes_cobs (inside the accumulator and as the isolated-decode yardstick)",
            "postcard::Deserializer + de_flavors::Slice",
            "cobs 0.2.3 decode_in_place",
            "serde visitor protocol driven exactly as derive would",
        ]
    }
    fn simulated_components() -> &'static [&'static str] {
        &[
            "the serial line: how the stream is cut into feed calls (seeded chunkers / complete composition sweep)",
            "the sending peer: frames synthesised by the harness's own wire + COBS reference encoder",
            "the documented re-feed loop (re-implemented verbatim in the harness)",
        ]
    }
    fn assumptions() -> Vec<String> {
        vec![
            "Precondition of the property enforced by the generator and re-checked by exec: every segment (sentinel included) and the tail are at most N bytes.".into(),
            "The yardstick for each result is the real postcard::from_bytes_cobs on a private copy of the segment, as the statement says; a history whose isolated decode panics is skipped and counted.".into(),
            "Capacities instantiated: 1-10,12,16,24,32,48,64,100,128,255,256,257,300,520,770 and (rarely, with their own generator) 65535, 65536, 70000.".into(),
            "Seeded search, not proof: the schedule dimension is complete only for the swept short streams.".into(),
        ]
    }
}

// ---------------------------------------------------------------------------------------------
// C09

pub struct C09;

mod f9 {
    pub const OVERLONG_VALID: usize = 0;
    pub const OVERLONG_GARBAGE: usize = 1;
    pub const GARBAGE_BETWEEN: usize = 2;
    pub const OVERFLOW_NO_TERMINATOR: usize = 3;
    pub const OVERFLOW_TERMINATOR: usize = 4;
    pub const OVERFLOW_BUFFER_EXACTLY_FULL: usize = 5;
    pub const CAP_EQ_FRAME: usize = 6;
    pub const CAP_FRAME_MINUS_1: usize = 7;
    pub const CAP_FRAME_PLUS_1: usize = 8;
    pub const OVERLONG_TAIL: usize = 9;
    pub const NAMES: [&str; 10] = [
        "over_long_valid_frame",
        "over_long_garbage_segment",
        "garbage_segment_that_fits",
        "overflow_reported_without_terminator_in_window",
        "overflow_reported_with_terminator_in_window",
        "overflow_while_buffer_exactly_full_call_consumes_nothing",
        "capacity_equals_frame_length",
        "capacity_is_frame_length_minus_1",
        "capacity_is_frame_length_plus_1",
        "over_long_unterminated_tail",
    ];
}

mod p9 {
    pub const FRAME_DELIVERED_AFTER_OVERFLOW: usize = 0;
    pub const FRAME_DELIVERED_AFTER_GARBAGE: usize = 1;
    pub const FRAMES_DELIVERED: usize = 2;
    pub const TINY_CAPACITY: usize = 3;
    pub const TWO_OVERFLOWS_ONE_SEGMENT: usize = 4;
    pub const WINDOW_UNCHANGED_ONCE: usize = 5;
    pub const ISOLATED_DECODE_PANICS: usize = 6;
    pub const HUGE_CAPACITY: usize = 7;
    pub const MORE_THAN_65535_SEGMENTS: usize = 8;
    pub const NAMES: [&str; 9] = [
        "well_formed_frame_delivered_right_after_an_overflowed_segment",
        "well_formed_frame_delivered_right_after_garbage",
        "well_formed_frames_delivered",
        "capacity_1_to_3",
        "two_or_more_overflow_reports_for_one_segment",
        "call_returned_its_window_unchanged",
        "isolated_decode_panicked",
        "capacity_65535_or_more",
        "more_than_65535_segments_through_one_accumulator",
    ];
}

fn c09_history<const N: usize>(
    t: &AccTrace,
    stream: &[u8],
    lens: &[usize],
    out: &mut Outcome<AccTrace>,
) -> bool {
    let narrowed = |lens: &[usize]| {
        let mut n = t.clone();
        n.chunks = Chunks::List(lens.to_vec());
        Some(n)
    };
    macro_rules! fail {
        ($clause:expr, $($arg:tt)*) => {{
            let detail = format!($($arg)*);
            out.fail("C09", $clause, format!("N={} {}", N, $clause), detail, narrowed(lens));
            return false;
        }};
    }
    let mut acc: Holder<N> = Holder::new(t.relocate && N <= 1024);
    let mut other: Option<Box<CobsAccumulator<N>>> = None;
    let mut ncall_total = 0usize;
    let mut rawbuf: Vec<u8> = Vec::new();
    let mut calls: Vec<Call> = Vec::new();
    let mut cstart = 0usize;
    for &cl in lens {
        let chunk: &[u8] = if t.reuse_buf {
            rawbuf.clear();
            rawbuf.extend_from_slice(&stream[cstart..cstart + cl]);
            &rawbuf
        } else {
            &stream[cstart..cstart + cl]
        };
        let mut window = chunk;
        let mut ncalls = 0usize;
        let mut prev_unchanged = false;
        loop {
            let pos = cstart + (chunk.len() - window.len());
            ncall_total += 1;
            if t.relocate && N <= 1024 && ncall_total % 2 == 0 {
                // a plain Rust move of the accumulator to a different address. Both allocations
                // stay alive for the whole history, so code that kept a pointer into the old
                // location misbehaves deterministically instead of corrupting the heap.
                let o = other.get_or_insert_with(|| Box::new(CobsAccumulator::new()));
                if let Holder::Boxed(b) = &mut acc {
                    std::mem::swap(&mut **o, &mut **b);
                    std::mem::swap(o, b);
                }
            }
            let call = match feed_once::<N>(&mut acc, t.borrowed, pos, window) {
                Ok(c) => c,
                Err(msg) => fail!(
                    "never-panics",
                    "feed panicked ({msg}) at stream pos {pos}, window {} bytes [{}]",
                    window.len(),
                    hex(window)
                ),
            };
            out.evals += 1;
            out.ev(call.kind.code(), pos as u64, call.rem as u64, || {
                format!(
                    "feed(pos={pos}, {} bytes [{}]) -> {:?} rem={} idx={}",
                    call.window,
                    hex(window),
                    call.kind,
                    call.rem,
                    call.idx_after
                )
            });
            ncalls += 1;
            // (no clause on the numeric value of the fill counter: the statement is about panics
            // and about accesses outside the buffer, which the guarded arena, the canaries and the
            // Miri tier observe directly; a counter that uses N+1 as a marker breaks nothing)
            if !call.suffix {
                fail!(
                    "progress",
                    "remainder returned at pos {pos} is not a suffix of the window (window {} bytes, remainder {} bytes): the documented loop would skip or repeat bytes",
                    call.window,
                    call.rem
                );
            }
            let consumed = call.window - call.rem;
            out.bytes += consumed as u64;
            let consumed_has_zero = window[..consumed].contains(&0);
            // after a consumed zero byte the accumulator is in its initial state with respect to
            // that zero: all it may hold is what the same call consumed after its last zero
            if HOOK && consumed_has_zero {
                let lz = window[..consumed].iter().rposition(|b| *b == 0).unwrap();
                let after = &window[lz + 1..consumed];
                if call.buffered_after != after {
                    fail!(
                        "initial-state-after-zero",
                        "feed at pos {pos} consumed a zero byte but the accumulator then buffers {} bytes [{}]; the bytes it consumed after that zero are [{}]",
                        call.idx_after,
                        hex(&call.buffered_after),
                        hex(after)
                    );
                }
            }
            if call.kind == Kind::Consumed && call.rem != 0 {
                // cannot happen by construction of observe(); kept for clarity
            }
            let unchanged = consumed == 0 && !window.is_empty();
            if unchanged {
                out.probe(p9::WINDOW_UNCHANGED_ONCE);
                out.fault(f9::OVERFLOW_BUFFER_EXACTLY_FULL);
                if prev_unchanged {
                    fail!(
                        "progress",
                        "two consecutive feed calls at pos {pos} returned their window unchanged: the documented loop does not terminate"
                    );
                }
            }
            prev_unchanged = unchanged;
            if ncalls > 2 * chunk.len() + 2 {
                fail!("progress", "more than 2m+2 = {} feed calls for a chunk of {} bytes", 2 * chunk.len() + 2, chunk.len());
            }
            if call.kind == Kind::OverFull {
                if window.contains(&0) && consumed_has_zero {
                    out.fault(f9::OVERFLOW_TERMINATOR);
                } else {
                    out.fault(f9::OVERFLOW_NO_TERMINATOR);
                }
            }
            let kind = call.kind;
            let rem = call.rem;
            calls.push(call);
            // documented loop: Consumed => break; anything else => continue with the remainder
            if kind == Kind::Consumed {
                break;
            }
            window = &window[window.len() - rem..];
            if window.is_empty() {
                break;
            }
        }
        cstart += cl;
    }
    out.extra[X_FEED_CALLS] += calls.len() as u64;
    if let Some(off) = acc.release() {
        fail!(
            "never-panics",
            "a byte {} bytes in front of the accumulator object was overwritten: the accumulator wrote outside its own memory",
            -off
        );
    }

    // per-segment clauses
    let mut sig = Fnv::new();
    sig.usize(N);
    let mut seg_start = 0usize;
    let real: Vec<&Call> = calls.iter().filter(|c| c.window > 0).collect();
    let mut ci = 0usize; // calls are in stream order
    let mut prev_overflowed = false;
    let mut prev_garbage = false;
    let mut any_overflow = false;
    let mut frame_after_overflow = false;
    for (si, g) in t.segments.iter().enumerate() {
        let seg_end = seg_start + g.bytes.len();
        let first = ci;
        while ci < real.len() && real[ci].pos < seg_end {
            ci += 1;
        }
        let mine: &[&Call] = &real[first..ci];
        let overflows = mine.iter().filter(|c| c.kind == Kind::OverFull).count();
        let glen = g.bytes.len();
        if glen > N {
            any_overflow = true;
            match g.kind {
                SegKind::OverLong => out.fault(f9::OVERLONG_VALID),
                _ => out.fault(f9::OVERLONG_GARBAGE),
            }
            if glen == N + 1 {
                out.fault(f9::CAP_FRAME_MINUS_1);
            }
            if overflows == 0 {
                fail!(
                    "overflow-reported",
                    "segment {si} at stream pos {seg_start} is {glen} bytes long (capacity {N}) but no call up to the one consuming its sentinel reported OverFull"
                );
            }
            if overflows >= 2 {
                out.probe(p9::TWO_OVERFLOWS_ONE_SEGMENT);
            }
            sig.byte(0x40 | overflows.min(3) as u8);
            prev_overflowed = true;
            prev_garbage = false;
        } else {
            if glen == N {
                out.fault(f9::CAP_EQ_FRAME);
            }
            if glen + 1 == N {
                out.fault(f9::CAP_FRAME_PLUS_1);
            }
            let iso = match &g.expect {
                // known by construction: the harness's own encoding of a value of the target type
                Some(Expect::Value(v)) => Some(v.clone()),
                _ => match decode_isolated(&g.bytes) {
                    Ok(v) => v,
                    Err(_) => {
                        out.probe(p9::ISOLATED_DECODE_PANICS);
                        None
                    }
                },
            };
            match iso {
                Some(v) => {
                    // a well-formed frame of the target type, fits, starts right after a zero
                    // byte (or at the stream start): must be delivered intact
                    let (last, before) = match mine.split_last() {
                        Some(x) => x,
                        None => fail!(
                            "resync",
                            "well-formed frame {si} at stream pos {seg_start} ({glen} bytes, capacity {N}) follows a zero byte, yet no feed call ever started inside it: an earlier call consumed past its own sentinel and swallowed the whole frame"
                        ),
                    };
                    for c in before {
                        if c.kind != Kind::Consumed {
                            fail!(
                                "resync",
                                "well-formed frame {si} at stream pos {seg_start} ({glen} bytes, capacity {N}) follows a zero byte, yet the call at pos {} before its sentinel returned {:?}",
                                c.pos,
                                c.kind
                            );
                        }
                    }
                    if last.kind != Kind::Success {
                        fail!(
                            "resync",
                            "well-formed frame {si} at stream pos {seg_start} ({glen} bytes, capacity {N}) follows a zero byte but the call consuming its sentinel returned {:?}",
                            last.kind
                        );
                    }
                    if last.data.as_ref() != Some(&v) {
                        fail!(
                            "resync",
                            "frame {si} at stream pos {seg_start} was delivered as {:?}; decoded in isolation it is {:?}",
                            last.data,
                            v
                        );
                    }
                    if !last.borrows_ok {
                        fail!("resync", "frame {si}: borrowed data does not live intact in the accumulator's buffer");
                    }
                    out.probe(p9::FRAMES_DELIVERED);
                    if prev_overflowed {
                        out.probe(p9::FRAME_DELIVERED_AFTER_OVERFLOW);
                        frame_after_overflow = true;
                    }
                    if prev_garbage {
                        out.probe(p9::FRAME_DELIVERED_AFTER_GARBAGE);
                    }
                    sig.byte(0x10 | mine.len().min(4) as u8);
                    prev_garbage = false;
                }
                None => {
                    out.fault(f9::GARBAGE_BETWEEN);
                    sig.byte(0x20 | mine.len().min(4) as u8);
                    prev_garbage = true;
                }
            }
            prev_overflowed = false;
        }
        seg_start = seg_end;
    }
    // unterminated tail
    if t.tail.len() > N {
        any_overflow = true;
        out.fault(f9::OVERLONG_TAIL);
        // no verdict on the tail: the statement promises the overflow report "before that
        // segment's sentinel is passed", and an unterminated tail has no sentinel yet — an
        // implementation may report the overflow of a segment only with its sentinel
        let _ = &real[ci..];
    }
    if N <= 3 {
        out.probe(p9::TINY_CAPACITY);
    }
    if N >= 65535 {
        out.probe(p9::HUGE_CAPACITY);
    }
    if t.segments.len() > 65535 {
        out.probe(p9::MORE_THAN_65535_SEGMENTS);
    }
    if any_overflow && frame_after_overflow {
        if let Chunks::List(_) = t.chunks {
            sig.usize(lens.len().min(8));
        }
        out.sigs.push(sig.finish());
    }
    true
}

fn c09_exec<const N: usize>(t: &AccTrace, out: &mut Outcome<AccTrace>) {
    if !t.well_formed() {
        out.skipped = Some("malformed_trace");
        return;
    }
    let stream = t.stream();
    shape::with_shape(&t.shape, || match &t.chunks {
        Chunks::List(l) => {
            let lens = chunk_list(stream.len(), l);
            c09_history::<N>(t, &stream, &lens, out);
        }
        Chunks::AllCompositions => {
            if stream.len() > 16 {
                out.skipped = Some("sweep_stream_too_long");
                return;
            }
            out.extra[X_SWEPT_STREAMS] += 1;
            for_each_composition(stream.len(), |lens| {
                out.extra[X_SWEEP_EXECS] += 1;
                c09_history::<N>(t, &stream, lens, out)
            });
        }
    });
}

impl Scenario for C09 {
    type Trace = AccTrace;
    const ID: &'static str = "C09";
    const TAG: u64 = 0xC09;
    const LEVEL: &'static str = "exploration";
    fn probe_names() -> &'static [&'static str] {
        &p9::NAMES
    }
    fn fault_names() -> &'static [&'static str] {
        &f9::NAMES
    }
    fn extra_names() -> &'static [&'static str] {
        &["streams_swept_over_all_compositions", "sweep_executions", "feed_calls"]
    }
    fn default_runs(tier: Tier) -> u64 {
        match tier {
            Tier::Quick => 1_500_000,
            Tier::Thorough => 60_000_000,
        }
    }
    fn gen(rng: &mut Rng, tier: Tier, run: u64) -> AccTrace {
        let o = GenOpts { overflow: true, max_stream: 2000, max_segments: 10 };
        let sweep_every = match tier {
            Tier::Quick => 256,
            Tier::Thorough => 512,
        };
        if crate::runner::small() {
            let o = GenOpts { overflow: true, max_stream: 48, max_segments: 4 };
            let l = rng.range(2, 6);
            return if run % 4 == 0 { gen_acc_trace(rng, &o, Some(l)) } else { gen_acc_trace(rng, &o, None) };
        }
        if run % sweep_every == 0 {
            let l = match tier {
                Tier::Quick => rng.range(2, 12),
                Tier::Thorough => if rng.chance(1, 8) { rng.range(15, 16) } else { rng.range(2, 14) },
            };
            gen_acc_trace(rng, &o, Some(l))
        } else if run % 197 == 1 {
            gen_huge(rng, true)
        } else if run % 997 == 2 {
            gen_long(rng, true)
        } else if run % 49_999 == 3 && !crate::runner::small() {
            gen_very_long(rng, true)
        } else {
            gen_acc_trace(rng, &o, None)
        }
    }
    fn exec(t: &AccTrace, out: &mut Outcome<AccTrace>) {
        dispatch_n!(t.n, c09_exec, t, out)
    }
    fn shrink(t: &AccTrace) -> Vec<AccTrace> {
        shrink_acc(t)
    }
    fn rule() -> &'static str {
        "one case = one history: a byte stream of valid frames interleaved with over-long frames, over-long garbage, fitting garbage, corrupt and empty frames and an optional (possibly over-long) unterminated tail, cut into feed calls by a seeded chunker, or every composition for streams up to 12 (thorough: 16) bytes; capacities include frame-1, frame, frame+1 and 1..3. distinct_nontrivial counts distinct signatures (N, per segment: class {overflowed with k reports, delivered over k calls, rejected over k calls}, chunk count class) of histories in which at least one overflow fired and a well-formed frame was delivered directly after an overflowed segment."
    }
    fn real_components() -> &'static [&'static str] {
        C08::real_components()
    }
    fn simulated_components() -> &'static [&'static str] {
        &[
            "the noisy serial line: chunking of the stream into feed calls, over-long segments, garbage (line faults)",
            "the sending peer: frames synthesised by the harness's own wire + COBS reference encoder",
            "the documented re-feed loop (re-implemented verbatim in the harness), with a 2m+2 call bound instead of a timeout",
        ]
    }
    fn assumptions() -> Vec<String> {
        vec![
            "History invariants, not a behavioural clone: how many bytes are dropped on overflow and what is reported for the remains of an over-long segment are deliberately not constrained.".into(),
            "A 'well-formed frame of the target type' is a fitting segment whose isolated real from_bytes_cobs succeeds; it must be delivered with that value.".into(),
            "Progress is decided by a call bound (2m+2 per chunk, never two unchanged windows in a row), not by wall-clock.".into(),
            "Seeded search, not proof: the schedule dimension is complete only for the swept short streams.".into(),
        ]
    }
}
