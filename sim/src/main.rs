//! pcsim — deterministic simulation with fault injection for postcard (properties C05 C08 C09 C10 C11)
//!
//! Every command runs as parent + child: the child does the work, the parent only watches for a
//! crash of the code under test (guard page hit, abort) and turns it into a replayable violation.

mod acc;
mod arena;
mod c05;
mod c10;
mod c11;
mod dev;
mod refenc;
mod rng;
mod runner;
mod shape;
mod supervisor;
mod sut;

use runner::{RunCfg, Scenario, Tier};
use std::time::Duration;
use supervisor::ChildEnd;

fn usage() -> ! {
    eprintln!(
        "usage:\n  pcsim run <C05|C08|C09|C10|C11> <quick|thorough> [--runs N] [--threads T] [--seed S] [--evidence PATH | --no-evidence] [--replay-dir DIR] [--known PATH] [--extra-coverage PATH]\n  pcsim replay <file>"
    );
    std::process::exit(2)
}

macro_rules! with_scenario {
    ($id:expr, $s:ident => $body:expr) => {
        match $id {
            "C05" => {
                type $s = c05::C05;
                $body
            }
            "C08" => {
                type $s = acc::C08;
                $body
            }
            "C10" => {
                if let Err(e) = c10::oracle_selftest() {
                    eprintln!("harness error: CRC oracle self-test failed: {e}");
                    std::process::exit(2);
                }
                type $s = c10::C10;
                $body
            }
            "C09" => {
                type $s = acc::C09;
                $body
            }
            "C11" => {
                type $s = c11::C11;
                $body
            }
            other => {
                eprintln!("harness error: no scenario for property {other:?}");
                std::process::exit(2)
            }
        }
    };
}

fn parse_run(args: &[String]) -> (String, RunCfg, Option<u64>) {
    if args.len() < 3 {
        usage();
    }
    let verif = std::env::var("PCSIM_VERIF_DIR").unwrap_or_else(|_| "/verif".to_string());
    let id = args[1].clone();
    let tier = match args[2].as_str() {
        "quick" => Tier::Quick,
        "thorough" => Tier::Thorough,
        _ => usage(),
    };
    let seed = std::env::var("VERIF_SEED")
        .ok()
        .and_then(|s| s.trim().parse::<i128>().ok())
        .map(|v| v as u64)
        .unwrap_or(20261003);
    let mut cfg = RunCfg {
        tier,
        seed,
        runs: 0,
        threads: std::thread::available_parallelism().map(|n| n.get()).unwrap_or(4).min(16),
        evidence: Some(format!("{verif}/evidence/{id}.json")),
        replay_dir: format!("{verif}/replays"),
        known_findings: format!("{verif}/known_findings.json"),
        minimise_budget: Duration::from_secs(30),
        quiet: false,
        extra_coverage: None,
    };
    let mut runs = None;
    let mut i = 3;
    while i < args.len() {
        let val = |i: usize| args.get(i + 1).cloned().unwrap_or_else(|| usage());
        match args[i].as_str() {
            "--runs" => runs = Some(val(i).parse().unwrap_or_else(|_| usage())),
            "--threads" => cfg.threads = val(i).parse().unwrap_or_else(|_| usage()),
            "--seed" => cfg.seed = val(i).parse().unwrap_or_else(|_| usage()),
            "--evidence" => cfg.evidence = Some(val(i)),
            "--no-evidence" => {
                cfg.evidence = None;
                i += 1;
                continue;
            }
            "--replay-dir" => cfg.replay_dir = val(i),
            "--known" => cfg.known_findings = val(i),
            "--extra-coverage" => cfg.extra_coverage = Some(val(i)),
            "--small" => {
                runner::set_small(true);
                i += 1;
                continue;
            }
            _ => usage(),
        }
        i += 2;
    }
    (id, cfg, runs)
}

fn read_doc(path: &str) -> serde_json::Value {
    let txt = std::fs::read_to_string(path).unwrap_or_else(|e| {
        eprintln!("harness error: cannot read {path}: {e}");
        std::process::exit(2)
    });
    runner::json_parse(&txt).unwrap_or_else(|e| {
        eprintln!("harness error: {path} is not JSON: {e}");
        std::process::exit(2)
    })
}

fn child_main(args: &[String]) -> i32 {
    supervisor::install_crash_handler();
    sut::install_hook();
    match args[0].as_str() {
        "run" => {
            let (id, mut cfg, runs) = parse_run(args);
            supervisor::start_watchdog();
            with_scenario!(id.as_str(), S => {
                cfg.runs = runs.unwrap_or_else(|| S::default_runs(cfg.tier));
                runner::run::<S>(&cfg)
            })
        }
        "replay" => {
            let path = &args[1];
            let doc = read_doc(path);
            let id = doc["property"].as_str().unwrap_or("").to_string();
            with_scenario!(id.as_str(), S => runner::replay::<S>(path, &doc))
        }
        "dump-trace" => {
            // dump-trace <ID> <tier> <run> [--seed S] [--small]: the replay document of one run,
            // for violations that only an interpreter (Miri) can see
            if args.len() < 4 {
                usage();
            }
            let run: u64 = args[3].parse().unwrap_or_else(|_| usage());
            let mut a2: Vec<String> = vec!["run".into(), args[1].clone(), args[2].clone()];
            a2.extend(args[4..].iter().cloned());
            let (id, cfg, _) = parse_run(&a2);
            with_scenario!(id.as_str(), S => {
                let mut rng = rng::Rng::new(rng::run_seed(cfg.seed, S::TAG, run));
                let t = S::gen(&mut rng, cfg.tier, run);
                let doc = serde_json::json!({
                    "property": S::ID,
                    "clause": "undefined-behaviour",
                    "detail": "Miri reported undefined behaviour (e.g. an access outside the buffer the code under test was given) while executing this trace",
                    "key": format!("{} miri", S::ID),
                    "seed": cfg.seed,
                    "run": run,
                    "tier": cfg.tier.name(),
                    "miri": true,
                    "build": dev::EIO_BUILD,
                    "trace": t,
                    "events": [],
                });
                println!("{}", serde_json::to_string_pretty(&doc).unwrap());
                0
            })
        }
        "exec-trace" => {
            // exec-trace <ID> <file holding a bare trace>: 0 = holds, 1 = violation; may crash
            let id = args[1].clone();
            let txt = std::fs::read_to_string(&args[2]).unwrap_or_default();
            with_scenario!(id.as_str(), S => {
                match runner::json_parse::<<S as Scenario>::Trace>(&txt) {
                    Ok(t) => {
                        supervisor::set_run(0);
                        let o = runner::exec_one::<S>(&t, false);
                        o.violation.is_some() as i32
                    }
                    Err(e) => {
                        eprintln!("harness error: bad trace: {e}");
                        2
                    }
                }
            })
        }
        _ => usage(),
    }
}

fn main() {
    let mut args: Vec<String> = std::env::args().skip(1).collect();
    if args.is_empty() {
        usage();
    }
    if args[0] == "--child" {
        args.remove(0);
        if args.is_empty() {
            usage();
        }
        std::process::exit(child_main(&args));
    }
    // parent
    let verif = std::env::var("PCSIM_VERIF_DIR").unwrap_or_else(|_| "/verif".to_string());
    match args[0].as_str() {
        "run" => {
            let (id, mut cfg, runs) = parse_run(&args);
            let _ = std::fs::create_dir_all(&cfg.replay_dir);
            let crash_file = format!("{}/.crash-{}", cfg.replay_dir, std::process::id());
            match supervisor::spawn_child(&args, &crash_file, false) {
                ChildEnd::Exit(c) => std::process::exit(c),
                ChildEnd::Crash { run, ctx, signal } if ctx[0] == runner::MINIMISING && run != u64::MAX => {
                    // an ordinary violation had been found; the child died while shrinking it
                    let path = format!("{}/{}-{}-{}.json", cfg.replay_dir, id, cfg.seed, run);
                    println!(
                        "the child ended with signal {signal} while minimising the violation of run {run}; reporting the un-minimised trace"
                    );
                    if std::path::Path::new(&path).exists() {
                        println!("VIOLATION property={id} replay={path}");
                        std::process::exit(1);
                    }
                    eprintln!("harness error: un-minimised replay file {path} is missing");
                    std::process::exit(2);
                }
                ChildEnd::Crash { mut signal, mut run, mut ctx } => {
                    // which run crashed first depends on thread timing; make the report
                    // deterministic: re-run only the runs below it until none of them crashes
                    let strip = |a: &[String]| -> Vec<String> {
                        let mut o = Vec::new();
                        let mut i = 0;
                        while i < a.len() {
                            match a[i].as_str() {
                                "--runs" | "--evidence" => i += 2,
                                "--no-evidence" => i += 1,
                                _ => {
                                    o.push(a[i].clone());
                                    i += 1;
                                }
                            }
                        }
                        o
                    };
                    // (not for hangs: every repetition would burn the whole CPU limit again)
                    while run != u64::MAX && run > 0 && signal != supervisor::SIG_HANG {
                        let mut a = strip(&args);
                        a.extend(["--runs".to_string(), run.to_string(), "--no-evidence".to_string()]);
                        match supervisor::spawn_child(&a, &crash_file, true) {
                            ChildEnd::Crash { signal: s2, run: r2, ctx: c2 } if r2 < run => {
                                signal = s2;
                                run = r2;
                                ctx = c2;
                            }
                            ChildEnd::Exit(1) => {
                                // an ordinary violation at a lower run index comes first
                                let mut a = strip(&args);
                                a.extend(["--runs".to_string(), run.to_string()]);
                                if let Some(e) = &cfg.evidence {
                                    a.extend(["--evidence".to_string(), e.clone()]);
                                }
                                match supervisor::spawn_child(&a, &crash_file, false) {
                                    ChildEnd::Exit(c) => std::process::exit(c),
                                    _ => break,
                                }
                            }
                            _ => break,
                        }
                    }
                    let code = with_scenario!(id.as_str(), S => {
                        cfg.runs = runs.unwrap_or_else(|| S::default_runs(cfg.tier));
                        supervisor::handle_crash::<S>(&cfg, signal, run, ctx)
                    });
                    std::process::exit(code);
                }
            }
        }
        "replay" => {
            if args.len() < 2 {
                usage();
            }
            let path = args[1].clone();
            let doc = read_doc(&path);
            let id = doc["property"].as_str().unwrap_or("?").to_string();
            let crash_file = format!("{verif}/replays/.crash-{}", std::process::id());
            match supervisor::spawn_child_limited(
                &args,
                &crash_file,
                false,
                Some(Duration::from_millis(supervisor::HANG_LIMIT_MS / 4)),
            ) {
                ChildEnd::Exit(c) => std::process::exit(c),
                ChildEnd::Crash { signal, .. } => {
                    if signal == supervisor::SIG_HANG {
                        println!("replay: executing the trace did not terminate");
                    } else {
                        println!("replay: the process died with signal {signal} while executing the trace");
                    }
                    println!("VIOLATION property={id} replay={path}");
                    std::process::exit(1);
                }
            }
        }
        _ => usage(),
    }
}
