//! pcsim — deterministic simulation with fault injection for postcard (properties C05 C08 C09 C10 C11)

mod acc;
mod refenc;
mod rng;
mod runner;
mod shape;
mod sut;

use runner::{RunCfg, Scenario, Tier};
use std::time::Duration;

fn usage() -> ! {
    eprintln!(
        "usage:\n  pcsim run <C05|C08|C09|C10|C11> <quick|thorough> [--runs N] [--threads T] [--seed S] [--evidence PATH] [--replay-dir DIR] [--known PATH] [--extra-coverage PATH]\n  pcsim replay <file>\n  pcsim selftest"
    );
    std::process::exit(2)
}

fn run_id(id: &str, cfg: &mut RunCfg, runs: Option<u64>) -> i32 {
    fn go<S: Scenario>(cfg: &mut RunCfg, runs: Option<u64>) -> i32 {
        cfg.runs = runs.unwrap_or_else(|| S::default_runs(cfg.tier));
        runner::run::<S>(cfg)
    }
    match id {
        "C08" => go::<acc::C08>(cfg, runs),
        "C09" => go::<acc::C09>(cfg, runs),
        _ => {
            eprintln!("harness error: no scenario for property {id}");
            2
        }
    }
}

fn main() {
    let args: Vec<String> = std::env::args().skip(1).collect();
    if args.is_empty() {
        usage();
    }
    let verif = std::env::var("PCSIM_VERIF_DIR").unwrap_or_else(|_| "/verif".to_string());
    match args[0].as_str() {
        "run" => {
            if args.len() < 3 {
                usage();
            }
            let id = args[1].clone();
            let tier = match args[2].as_str() {
                "quick" => Tier::Quick,
                "thorough" => Tier::Thorough,
                _ => usage(),
            };
            let seed = std::env::var("VERIF_SEED")
                .ok()
                .and_then(|s| s.trim().parse::<i128>().ok())
                .map(|v| v as u64)
                .unwrap_or(20261003);
            let mut cfg = RunCfg {
                tier,
                seed,
                runs: 0,
                threads: std::thread::available_parallelism().map(|n| n.get()).unwrap_or(4).min(16),
                evidence: Some(format!("{verif}/evidence/{id}.json")),
                replay_dir: format!("{verif}/replays"),
                known_findings: format!("{verif}/known_findings.json"),
                minimise_budget: Duration::from_secs(30),
                quiet: false,
                extra_coverage: None,
            };
            let mut runs = None;
            let mut i = 3;
            while i < args.len() {
                let val = |i: usize| args.get(i + 1).cloned().unwrap_or_else(|| usage());
                match args[i].as_str() {
                    "--runs" => runs = Some(val(i).parse().unwrap_or_else(|_| usage())),
                    "--threads" => cfg.threads = val(i).parse().unwrap_or_else(|_| usage()),
                    "--seed" => cfg.seed = val(i).parse().unwrap_or_else(|_| usage()),
                    "--evidence" => cfg.evidence = Some(val(i)),
                    "--no-evidence" => {
                        cfg.evidence = None;
                        i += 1;
                        continue;
                    }
                    "--replay-dir" => cfg.replay_dir = val(i),
                    "--known" => cfg.known_findings = val(i),
                    "--extra-coverage" => cfg.extra_coverage = Some(val(i)),
                    _ => usage(),
                }
                i += 2;
            }
            std::process::exit(run_id(&id, &mut cfg, runs));
        }
        "replay" => {
            if args.len() < 2 {
                usage();
            }
            sut::install_hook();
            let path = &args[1];
            let txt = std::fs::read_to_string(path).unwrap_or_else(|e| {
                eprintln!("harness error: cannot read {path}: {e}");
                std::process::exit(2)
            });
            let doc: serde_json::Value = serde_json::from_str(&txt).unwrap_or_else(|e| {
                eprintln!("harness error: {path} is not JSON: {e}");
                std::process::exit(2)
            });
            let code = match doc["property"].as_str().unwrap_or("") {
                "C08" => runner::replay::<acc::C08>(path, &doc),
                "C09" => runner::replay::<acc::C09>(path, &doc),
                other => {
                    eprintln!("harness error: unknown property {other:?} in {path}");
                    2
                }
            };
            std::process::exit(code);
        }
        _ => usage(),
    }
}
