//! C11: reader/writer transports. World: the value is written through a simulated writer and
//! read through a simulated reader into a guarded scratch buffer; the simulator decides how much
//! every call accepts/delivers (schedule) and where the transport fails (faults). Yardsticks are
//! the real slice path (`to_allocvec`, `take_from_bytes`) on the same value / the same bytes.

use crate::arena::{self, Place};
use crate::dev::{self, DevCfg, RKind, RLog, RStep, SimReader, SimWriter, WLog, WStep};
use crate::rng::{Fnv, Rng};
use crate::runner::{Outcome, Scenario, Tier};
use crate::shape::{self, Borrow, DynOwned, DynRef, GenCfg, Msg, Val};
use crate::sut;
use serde::{Deserialize, Serialize};
use std::cell::RefCell;
use std::rc::Rc;

#[derive(Clone, Copy, Debug, PartialEq, Eq, Serialize, Deserialize)]
pub enum Adapter {
    Std,
    Eio,
}

#[derive(Clone, Copy, Debug, PartialEq, Eq, Serialize, Deserialize)]
pub enum Scratch {
    /// 4096 bytes (more when the stream is longer)
    Big,
    /// exactly what the messages need (measured with a big scratch)
    Exact,
    Size(usize),
}

#[derive(Clone, Debug, Serialize, Deserialize)]
pub struct C11Trace {
    pub adapter: Adapter,
    pub msgs: Vec<Msg>,
    /// bytes after the last message on the reader's stream; must stay undelivered
    pub trailing: Vec<u8>,
    pub borrowed: bool,
    /// xor one byte of the reader's stream (the slice path decodes the same damaged bytes)
    pub stream_damage: Option<(usize, u8)>,
    pub wscript: Vec<WStep>,
    pub buffering: bool,
    pub flush_err: bool,
    /// hard write error once this many bytes have been accepted
    pub wfault: Option<usize>,
    pub rscript: Vec<RStep>,
    /// hard read error / end of stream at this stream offset
    pub rfault: Option<(usize, RKind)>,
    pub scratch: Scratch,
    pub place: Place,
    /// the reader's stream is what the writer put on the wire (else: the harness's own encoding)
    pub pipe: bool,
    /// additionally: hard error at every accepted/delivered offset, EOF at every offset,
    /// every scratch size 0..=R+1 (complete per trace)
    pub enumerate: bool,
    /// longer runs of retryable answers, other error kinds, a device that keeps failing
    #[serde(default)]
    pub dev: DevCfg,
}

type PcResult<T> = Result<T, postcard::Error>;

/// size of the 'big' scratch: 4096 bytes, or more when the stream itself is longer
const BIG_MIN: usize = 4096;

// ---- adapters ---------------------------------------------------------------------------------

fn write_one(a: Adapter, m: &Msg, w: SimWriter) -> Result<PcResult<SimWriter>, String> {
    let v = m.ser();
    match a {
        Adapter::Std => sut::call(move || postcard::to_io(&v, w)),
        Adapter::Eio => sut::call(move || postcard::to_eio(&v, w)),
    }
}

struct ReadOk {
    val: Val,
    reader: SimReader,
    rest_addr: usize,
    rest_len: usize,
}

fn read_one(a: Adapter, borrowed: bool, r: SimReader, scratch: &mut [u8]) -> Result<PcResult<ReadOk>, String> {
    macro_rules! go {
        ($f:path, $t:ty) => {
            sut::call(move || {
                $f((r, scratch)).map(|(d, (reader, rest)): ($t, (SimReader, &mut [u8]))| ReadOk {
                    val: d.0,
                    reader,
                    rest_addr: rest.as_ptr() as usize,
                    rest_len: rest.len(),
                })
            })
        };
    }
    match (a, borrowed) {
        (Adapter::Std, false) => go!(postcard::from_io, DynOwned),
        (Adapter::Std, true) => go!(postcard::from_io, DynRef),
        (Adapter::Eio, false) => go!(postcard::from_eio, DynOwned),
        (Adapter::Eio, true) => go!(postcard::from_eio, DynRef),
    }
}

// ---- probes / faults -----------------------------------------------------------------------------

mod p {
    pub const BLOCK_READ_3_CALLS: usize = 0;
    pub const WRITE_ALL_3_CALLS: usize = 1;
    pub const THREE_BORROWS: usize = 2;
    pub const SCRATCH_EXACT: usize = 3;
    pub const R0_S0: usize = 4;
    pub const FAULT_LAST_BYTE: usize = 5;
    pub const SECOND_MSG_FROM_RETURNED: usize = 6;
    pub const FLUSH_FAILURE_ALONE: usize = 7;
    pub const TRAILING_UNDELIVERED: usize = 8;
    pub const SCRATCH_TOO_SMALL_ERR: usize = 9;
    pub const INTERRUPTED_TRANSPARENT: usize = 10;
    pub const SLICE_PATH_ERR_READER_ERR: usize = 11;
    pub const PIPE_ROUNDTRIP: usize = 12;
    pub const BUFFERING_WRITER: usize = 13;
    pub const FAULT_FIRST_BYTE_NEXT_MSG: usize = 14;
    pub const NAMES: [&str; 15] = [
        "block_read_completed_over_3_or_more_read_calls",
        "write_all_completed_over_3_or_more_write_calls",
        "message_with_3_or_more_borrowed_fields",
        "scratch_exactly_required_size",
        "message_needing_no_scratch_read_with_empty_scratch",
        "fault_on_last_byte_of_a_message",
        "second_message_decoded_from_returned_reader_and_scratch",
        "flush_failure_alone",
        "trailing_bytes_left_undelivered",
        "scratch_too_small_reported_as_error",
        "interrupted_was_transparent",
        "slice_path_rejects_stream_and_reader_rejects_too",
        "pipe_writer_output_read_back",
        "buffering_writer_was_flushed_by_the_library",
        "fault_on_first_byte_of_next_message",
    ];
}

mod f {
    pub const W_HARD: usize = 0;
    pub const W_ZERO: usize = 1;
    pub const W_FLUSH: usize = 2;
    pub const W_INTR: usize = 3;
    pub const W_SHORT: usize = 4;
    pub const R_HARD: usize = 5;
    pub const R_EOF: usize = 6;
    pub const R_INTR: usize = 7;
    pub const R_SHORT: usize = 8;
    pub const SCRATCH_SHORT: usize = 9;
    pub const W_INTR_RUN3: usize = 10;
    pub const R_INTR_RUN3: usize = 11;
    pub const HARD_OTHER_KIND: usize = 12;
    pub const REFUSED_AFTER_FAULT: usize = 13;
    pub const NAMES: [&str; 14] = [
        "writer_hard_error_fired",
        "writer_answers_ok_0_forever",
        "writer_flush_failed",
        "writer_interrupted",
        "writer_short_write",
        "reader_hard_error_fired",
        "reader_end_of_stream_fired",
        "reader_interrupted",
        "reader_short_read",
        "scratch_smaller_than_required",
        "writer_interrupted_3_to_20_times_in_a_row",
        "reader_interrupted_3_to_20_times_in_a_row",
        "hard_error_of_another_kind_fired_wouldblock_timedout_eof_other_denied",
        "hard_error_on_a_device_that_fails_every_later_call_too",
    ];
}

const X_WRITE_CHAINS: usize = 0;
const X_READ_CHAINS: usize = 1;
const X_FAULT_OFFSETS: usize = 2;
const X_SCRATCH_SIZES: usize = 3;
const X_DEVICE_CALLS: usize = 4;

pub struct C11;

fn hexs(b: &[u8]) -> String {
    let mut s = String::new();
    for (i, x) in b.iter().enumerate() {
        if i >= 32 {
            s.push_str(&format!("…(+{})", b.len() - i));
            break;
        }
        s.push_str(&format!("{x:02x}"));
    }
    s
}

struct Fail {
    clause: &'static str,
    detail: String,
}

fn ev_dev(out: &mut Outcome<C11Trace>, who: &str, events: &[(u8, u32, u32)]) {
    for (c, a, b) in events.iter().take(300) {
        let (c, a, b) = (*c, *a, *b);
        out.ev(c as u64, a as u64, b as u64, || {
            let what = match c {
                b'w' => "write accepted",
                b'r' => "read delivered",
                b'E' => "HARD ERROR",
                b'I' => "Interrupted",
                b'z' => "write returned Ok(0) once",
                b'Z' => "write returns Ok(0) from now on",
                b'0' => "read returned Ok(0) (end of stream)",
                b'F' => "flush FAILED",
                b'f' => "flush ok",
                _ => "?",
            };
            format!("{who} @{a}: {what} ({b})")
        });
    }
}

// ---- writer side ------------------------------------------------------------------------------------

#[derive(Clone, Copy)]
struct WCfg<'a> {
    adapter: Adapter,
    msgs: &'a [Msg],
    /// plain encodings, the yardstick
    plains: &'a [Vec<u8>],
    script: &'a [WStep],
    buffering: bool,
    flush_err: bool,
    fault: Option<usize>,
    dev: DevCfg,
}

/// Writes all messages through one simulated writer. Ok(wire) or the failed clause.
fn write_chain(c: &WCfg, out: &mut Outcome<C11Trace>) -> Result<Vec<u8>, Fail> {
    let (w, log) = SimWriter::new(c.script.to_vec(), c.fault, c.buffering, c.flush_err, c.dev);
    out.extra[X_WRITE_CHAINS] += 1;
    let mut writer = Some(w);
    let mut expect: Vec<u8> = Vec::new();
    let mut flushed_all = false;
    let total: Vec<u8> = c.plains.concat();
    let res = (|| {
        for (i, m) in c.msgs.iter().enumerate() {
            let (fired_before, intr_before) = {
                let l = log.borrow();
                ((l.hard_fired, l.zero_fired, l.flush_fired), l.interrupted + l.zero_once)
            };
            let r = write_one(c.adapter, m, writer.take().unwrap());
            out.evals += 1;
            let l = log.borrow();
            if l.cap_hit && l.zero_answers <= 1000 {
                return Err(Fail { clause: "harness-cap", detail: String::new() });
            }
            // (each kind of failure on its own: a caller that survived a retryable hard error
            // in an earlier message may meet the device's next failure in this one)
            let fired_now = (l.hard_fired, l.zero_fired, l.flush_fired) != fired_before;
            // Interrupted and a one-off Ok(0) are not failures of the writer: the library may retry
            // or give up; either way only integrity is judged
            let interrupted = l.interrupted + l.zero_once > intr_before;
            if l.cap_hit && l.zero_answers > 1000 {
                return Err(Fail {
                    clause: "does-not-terminate",
                    detail: format!(
                        "the writer answered Ok(0) {} times after {} accepted bytes and the library kept calling write ({} calls)",
                        l.zero_answers,
                        l.accepted.len(),
                        l.calls
                    ),
                });
            }
            let r = match r {
                Ok(r) => r,
                Err(pmsg) => {
                    return Err(Fail {
                        clause: "no-panic",
                        detail: format!("writing message {i} through the {:?} writer panicked: {pmsg}", c.adapter),
                    })
                }
            };
            // whatever happened, the device must have seen a prefix of the plain encodings
            if !total.starts_with(&l.accepted) {
                return Err(Fail {
                    clause: "writer-prefix",
                    detail: format!(
                        "after message {i} the writer has accepted [{}], which is not a prefix of the plain encoding [{}] (fault fired: {})",
                        hexs(&l.accepted),
                        hexs(&total),
                        l.any_fault_fired()
                    ),
                });
            }
            // (an error of kind WouldBlock is the one failure a caller may reasonably answer by
            // trying again: with it, success is accepted too and judged like a fault-free write)
            let may_retry = c.adapter == Adapter::Std && c.dev.hard_kind == dev::KIND_WOULD_BLOCK && !l.zero_fired && !l.flush_fired;
            if fired_now && !(may_retry && r.is_ok()) {
                if r.is_ok() {
                    return Err(Fail {
                        clause: "writer-error-reported",
                        detail: format!(
                            "the writer failed during message {i} (hard error: {}, Ok(0): {}, flush failed: {}) but to_io/to_eio returned Ok",
                            l.hard_fired, l.zero_fired, l.flush_fired
                        ),
                    });
                }
                return Ok(()); // the writer is gone
            }
            match r {
                Ok(w) => {
                    expect.extend_from_slice(&c.plains[i]);
                    // what the writer *received* (accepted) — the statement does not say who
                    // flushes; a failing flush, if one is attempted, is judged separately
                    if l.accepted != expect {
                        return Err(Fail {
                            clause: "writer-exact-encoding",
                            detail: format!(
                                "after writing message {i} without any fault the writer has received [{}] ({} bytes), the plain encoding is [{}] ({} bytes)",
                                hexs(&l.accepted),
                                l.accepted.len(),
                                hexs(&expect),
                                expect.len()
                            ),
                        });
                    }
                    if c.buffering && l.wire == expect {
                        flushed_all = true;
                    }
                    writer = Some(w);
                }
                Err(e) => {
                    if interrupted {
                        // Interrupted made fatal: integrity (prefix) was checked above
                        return Ok(());
                    }
                    return Err(Fail {
                        clause: "writer-exact-encoding",
                        detail: format!("writing message {i} failed with {e:?} although the writer never failed"),
                    });
                }
            }
        }
        Ok(())
    })();
    let l = log.borrow();
    out.extra[X_DEVICE_CALLS] += l.calls;
    out.bytes += l.accepted.len() as u64;
    if l.hard_fired {
        out.fault(f::W_HARD);
        if c.adapter == Adapter::Std && c.dev.hard_kind != 0 {
            out.fault(f::HARD_OTHER_KIND);
        }
    }
    if l.hard_fired && c.dev.persist {
        out.fault(f::REFUSED_AFTER_FAULT);
    }
    if l.max_intr_run >= 3 {
        out.fault(f::W_INTR_RUN3);
    }
    if l.zero_fired {
        out.fault(f::W_ZERO);
    }
    if l.flush_fired {
        out.fault(f::W_FLUSH);
        if !l.hard_fired && !l.zero_fired {
            out.probe(p::FLUSH_FAILURE_ALONE);
        }
    }
    if l.interrupted > 0 {
        out.fault(f::W_INTR);
        if res.is_ok() && !l.any_fault_fired() && l.accepted == total {
            out.probe(p::INTERRUPTED_TRANSPARENT);
        }
    }
    if l.short_writes > 0 {
        out.fault(f::W_SHORT);
    }
    if l.max_chain >= 3 {
        out.probe(p::WRITE_ALL_3_CALLS);
    }
    if c.buffering && res.is_ok() && !l.any_fault_fired() && flushed_all {
        out.probe(p::BUFFERING_WRITER);
    }
    ev_dev(out, "writer", &l.events);
    res.map(|_| l.accepted.clone())
}

// ---- reader side ------------------------------------------------------------------------------------

/// what the slice path says about the stream, message by message
struct RefMsg {
    /// Ok(value) or the slice path rejects the bytes
    val: Option<Val>,
    start: usize,
    /// end offset in the stream (only if val is Some)
    end: usize,
}

fn slice_path(msgs: &[Msg], stream: &[u8]) -> Result<Vec<RefMsg>, String> {
    let mut out = Vec::new();
    let mut pos = 0;
    for m in msgs {
        let r = shape::with_shape(&m.shape, || {
            sut::call(|| {
                postcard::take_from_bytes::<DynOwned>(&stream[pos..]).map(|(d, rest)| (d.0, rest.len()))
            })
        })?;
        match r {
            Ok((v, rest)) => {
                let end = stream.len() - rest;
                out.push(RefMsg { val: Some(v), start: pos, end });
                pos = end;
            }
            Err(_) => {
                out.push(RefMsg { val: None, start: pos, end: pos });
                break;
            }
        }
    }
    Ok(out)
}

#[derive(Clone, Copy)]
struct RCfg<'a> {
    adapter: Adapter,
    borrowed: bool,
    msgs: &'a [Msg],
    stream: &'a Rc<Vec<u8>>,
    refs: &'a [RefMsg],
    script: &'a [RStep],
    fault: Option<(usize, RKind)>,
    dev: DevCfg,
    /// scratch consumed per message in the measuring run; None while measuring
    need: Option<&'a [usize]>,
    /// per message: Some(n) when the scratch a decode needs is known independently of the
    /// implementation — n = total length of its borrowed str/bytes for a zero-copy target without
    /// floats or chars, n = 0 for a message without any str/bytes/float/char; None otherwise
    /// (an owned string, a float or a char may or may not pass through the scratch)
    strict: &'a [Option<usize>],
    /// scratch that was available to message i in the measuring run (where it succeeded)
    avail_big: Option<&'a [usize]>,
    /// per message: the smallest available scratch at which a decode has succeeded so far
    min_ok: &'a RefCell<Vec<usize>>,
}

struct ReadReport {
    /// scratch used per successfully decoded message
    used: Vec<usize>,
    decoded: usize,
    /// per decoded message: how many bytes at the END of the scratch region it consumed still hold
    /// what the buffer held before the call (never written by the decode)
    trailing_unwritten: Vec<usize>,
    /// scratch that was available to each decoded message
    avail: Vec<usize>,
}

/// Reads the messages one after the other from one simulated reader with the given scratch.
fn read_chain(c: &RCfg, scratch: &mut [u8], out: &mut Outcome<C11Trace>) -> Result<ReadReport, Fail> {
    let (r, log) = SimReader::new(c.stream.clone(), c.script.to_vec(), c.fault, c.dev);
    out.extra[X_READ_CHAINS] += 1;
    let res = read_chain_inner(c, scratch, out, r, &log);
    let l = log.borrow();
    out.extra[X_DEVICE_CALLS] += l.calls;
    out.bytes += l.pos as u64;
    match l.fired {
        Some(RKind::HardError) => {
            out.fault(f::R_HARD);
            if c.adapter == Adapter::Std && c.dev.hard_kind != 0 {
                out.fault(f::HARD_OTHER_KIND);
            }
        }
        Some(RKind::Eof) => out.fault(f::R_EOF),
        None => {}
    }
    if l.fired == Some(RKind::HardError) && c.dev.persist {
        out.fault(f::REFUSED_AFTER_FAULT);
    }
    if l.max_intr_run >= 3 {
        out.fault(f::R_INTR_RUN3);
    }
    if l.interrupted > 0 {
        out.fault(f::R_INTR);
    }
    if l.short_reads > 0 {
        out.fault(f::R_SHORT);
    }
    if l.max_chain >= 3 {
        out.probe(p::BLOCK_READ_3_CALLS);
    }
    ev_dev(out, "reader", &l.events);
    if l.cap_hit {
        if l.eof_answers > 1000 {
            // not a budget problem: the device said "end of stream" over and over and the decode
            // kept asking
            return Err(Fail {
                clause: "does-not-terminate",
                detail: format!(
                    "the reader answered end-of-stream {} times at stream offset {} and the decode kept calling read ({} calls): a reader that is at its end must produce an error",
                    l.eof_answers, l.pos, l.calls
                ),
            });
        }
        return Err(Fail { clause: "harness-cap", detail: String::new() });
    }
    res
}

fn read_chain_inner(
    c: &RCfg,
    scratch: &mut [u8],
    out: &mut Outcome<C11Trace>,
    r: SimReader,
    log: &Rc<RefCell<RLog>>,
) -> Result<ReadReport, Fail> {
    let mut reader = Some(r);
    let mut cur_addr = scratch.as_mut_ptr() as usize;
    let mut cur_len = scratch.len();
    let scratch_end = cur_addr + cur_len;
    let mut report = ReadReport { used: Vec::new(), decoded: 0, trailing_unwritten: Vec::new(), avail: Vec::new() };
    // what the scratch held before anything was decoded into it
    let before_fill: Vec<u8> = scratch.to_vec();
    let scratch_base = cur_addr;
    for (i, rf) in c.refs.iter().enumerate() {
        let m = &c.msgs[i];
        let before = log.borrow().pos;
        let fired_before = log.borrow().fired.is_some();
        let intr_before = log.borrow().interrupted;
        // the scratch remainder returned by the previous message (we own the arena memory)
        let buf = unsafe { std::slice::from_raw_parts_mut(cur_addr as *mut u8, cur_len) };
        shape::clear_borrows();
        let res = shape::with_shape(&m.shape, || read_one(c.adapter, c.borrowed, reader.take().unwrap(), buf));
        out.evals += 1;
        let borrows: Vec<Borrow> = shape::take_borrows();
        let l = log.borrow();
        let delivered = l.pos - before;
        let fired_now = l.fired.is_some() && !fired_before;
        let interrupted = l.interrupted > intr_before;
        let res = match res {
            Ok(r) => r,
            Err(pmsg) => {
                return Err(Fail {
                    clause: "no-panic",
                    detail: format!(
                        "reading message {i} through the {:?} reader panicked: {pmsg} (scratch {} bytes, fault {:?})",
                        c.adapter, cur_len, c.fault
                    ),
                })
            }
        };
        // never over-read, whatever the outcome
        if let Some(_) = rf.val {
            if before + delivered > rf.end {
                return Err(Fail {
                    clause: "no-over-read",
                    detail: format!(
                        "message {i} occupies stream bytes {}..{} but the reader was drained up to offset {} during its decode",
                        rf.start,
                        rf.end,
                        before + delivered
                    ),
                });
            }
        }
        if fired_now {
            // a read was attempted exactly at the fault offset during this message
            let (k, kind) = c.fault.unwrap();
            if rf.val.is_some() && k >= rf.end {
                return Err(Fail {
                    clause: "no-over-read",
                    detail: format!(
                        "message {i} ends at stream offset {} but a read was issued at offset {k} during its decode",
                        rf.end
                    ),
                });
            }
            if k + 1 == rf.end {
                out.probe(p::FAULT_LAST_BYTE);
            }
            if k == rf.start && i > 0 {
                out.probe(p::FAULT_FIRST_BYTE_NEXT_MSG);
            }
            let may_retry = c.adapter == Adapter::Std && kind == RKind::HardError && c.dev.hard_kind == dev::KIND_WOULD_BLOCK;
            if res.is_ok() && !may_retry {
                return Err(Fail {
                    clause: "reader-error-reported",
                    detail: format!(
                        "the reader failed with {kind:?} at stream offset {k}, inside message {i} ({}..{}), but from_io/from_eio returned Ok",
                        rf.start, rf.end
                    ),
                });
            }
            if res.is_err() {
                return Ok(report);
            }
        }
        match res {
            Ok(ok) => {
                let want = match &rf.val {
                    Some(v) => v,
                    None => {
                        return Err(Fail {
                            clause: "same-value-as-slice-path",
                            detail: format!("slice decoding rejects message {i} at stream offset {}, the reader path returned {:?}", rf.start, ok.val),
                        })
                    }
                };
                if ok.val != *want {
                    return Err(Fail {
                        clause: "same-value-as-slice-path",
                        detail: format!("message {i}: reader path decoded {:?}, slice path decodes {:?}", ok.val, want),
                    });
                }
                if before + delivered != rf.end {
                    return Err(Fail {
                        clause: "no-over-read",
                        detail: format!(
                            "message {i} occupies stream bytes {}..{}; after its decode the reader stands at offset {}",
                            rf.start,
                            rf.end,
                            before + delivered
                        ),
                    });
                }
                // the returned scratch is a part of what was given (today: its tail)
                let used = cur_len.wrapping_sub(ok.rest_len);
                let cur_end = cur_addr + cur_len;
                if ok.rest_len > cur_len || (ok.rest_len > 0 && (ok.rest_addr < cur_addr || ok.rest_addr + ok.rest_len > cur_end)) {
                    return Err(Fail {
                        clause: "scratch-remainder",
                        detail: format!(
                            "message {i}: given {cur_len} scratch bytes at +{}, the returned remainder is {} bytes at +{}: not a part of the scratch that was given",
                            cur_addr - (scratch_end - scratch.len()),
                            ok.rest_len,
                            ok.rest_addr.wrapping_sub(scratch_end - scratch.len())
                        ),
                    });
                }
                let rest_lo = if ok.rest_len == 0 { cur_end } else { ok.rest_addr };
                let rest_hi = rest_lo + ok.rest_len;
                // borrowed data: inside the part of the scratch that was used, pairwise disjoint,
                // outside the returned remainder, and still holding its bytes
                let mut spans: Vec<(usize, usize)> = Vec::new();
                let mut borrowed_total = 0usize;
                for b in &borrows {
                    if b.len == 0 {
                        continue;
                    }
                    borrowed_total += b.len;
                    let inside = b.addr >= cur_addr && b.addr + b.len <= cur_end;
                    let overlaps_rest = b.addr < rest_hi && b.addr + b.len > rest_lo;
                    if !inside || overlaps_rest {
                        return Err(Fail {
                            clause: "borrowed-in-scratch",
                            detail: format!(
                                "message {i}: a borrowed field of {} bytes lies at scratch offset {}..{}; the scratch given is 0..{}, the returned remainder {}..{}",
                                b.len,
                                b.addr as isize - cur_addr as isize,
                                b.addr as isize - cur_addr as isize + b.len as isize,
                                cur_len,
                                rest_lo - cur_addr,
                                rest_hi - cur_addr
                            ),
                        });
                    }
                    let now = unsafe { std::slice::from_raw_parts(b.addr as *const u8, b.len) };
                    if now != &b.copy[..] {
                        return Err(Fail {
                            clause: "borrowed-in-scratch",
                            detail: format!(
                                "message {i}: a borrowed field at scratch offset {} held [{}] when it was handed out and holds [{}] after the decode (overwritten)",
                                b.addr - cur_addr,
                                hexs(&b.copy),
                                hexs(now)
                            ),
                        });
                    }
                    spans.push((b.addr, b.addr + b.len));
                }
                spans.sort_unstable();
                for w in spans.windows(2) {
                    if w[0].1 > w[1].0 {
                        return Err(Fail {
                            clause: "borrowed-in-scratch",
                            detail: format!(
                                "message {i}: two borrowed fields overlap in the scratch buffer ({}..{} and {}..{})",
                                w[0].0 - cur_addr,
                                w[0].1 - cur_addr,
                                w[1].0 - cur_addr,
                                w[1].1 - cur_addr
                            ),
                        });
                    }
                }
                if c.borrowed && used < borrowed_total {
                    return Err(Fail {
                        clause: "borrowed-in-scratch",
                        detail: format!("message {i}: {borrowed_total} bytes are borrowed but only {used} scratch bytes were used"),
                    });
                }
                if spans.len() >= 3 {
                    out.probe(p::THREE_BORROWS);
                }
                if let Some(n) = c.strict[i] {
                    if used != n {
                        return Err(Fail {
                            clause: "scratch-remainder",
                            detail: format!(
                                "message {i} {} and consumed {used} scratch bytes: the unused scratch was not returned",
                                if n == 0 {
                                    "holds no string, byte array, float or char".to_string()
                                } else {
                                    format!("borrows {n} bytes (strings and byte arrays, nothing else that could use the scratch)")
                                }
                            ),
                        });
                    }
                }
                {
                    let mut mo = c.min_ok.borrow_mut();
                    if mo.len() <= i {
                        mo.resize(i + 1, usize::MAX);
                    }
                    mo[i] = mo[i].min(cur_len);
                }
                if let Some(need) = c.need {
                    // (no clause "consumption is the same whatever was offered": for a message
                    // that may legitimately use scratch for floats or chars the statement does
                    // not fix how much; the strict rule above covers the messages it does)
                    if cur_len == need[i] {
                        out.probe(p::SCRATCH_EXACT);
                        if cur_len == 0 {
                            out.probe(p::R0_S0);
                        }
                    }
                }
                if i >= 1 {
                    out.probe(p::SECOND_MSG_FROM_RETURNED);
                }
                if interrupted {
                    out.probe(p::INTERRUPTED_TRANSPARENT);
                }
                {
                    // bytes of the consumed region next to the returned remainder that still hold
                    // the pre-fill (only when the consumed region is one piece: a prefix or a suffix)
                    let off = cur_addr - scratch_base;
                    let all = unsafe { std::slice::from_raw_parts(cur_addr as *const u8, cur_len) };
                    let mut k = 0;
                    if rest_hi == cur_end {
                        while k < used && all[used - 1 - k] == before_fill[off + used - 1 - k] {
                            k += 1;
                        }
                    } else if rest_lo == cur_addr {
                        while k < used && all[ok.rest_len + k] == before_fill[off + ok.rest_len + k] {
                            k += 1;
                        }
                    }
                    report.trailing_unwritten.push(k);
                }
                report.used.push(used);
                report.avail.push(cur_len);
                report.decoded += 1;
                reader = Some(ok.reader);
                // (an empty remainder may point anywhere; continue at the end of this scratch)
                cur_addr = if ok.rest_len == 0 { cur_end } else { ok.rest_addr };
                cur_len = ok.rest_len;
            }
            Err(e) => {
                if rf.val.is_none() {
                    out.probe(p::SLICE_PATH_ERR_READER_ERR);
                    return Ok(report);
                }
                if interrupted {
                    return Ok(report); // Interrupted made fatal: allowed, integrity checked above
                }
                // Too little scratch is a legitimate reason to fail. How much a message needs is
                // known exactly for `strict` messages; otherwise it is only known that the
                // measuring run's amount sufficed and that sufficiency is monotone.
                let too_small = match c.strict[i] {
                    Some(n) => cur_len < n,
                    None => {
                        let below_big = c.avail_big.map_or(false, |a| i < a.len() && cur_len < a[i]);
                        let below_ok = c.min_ok.borrow().get(i).map_or(true, |m| cur_len < *m);
                        below_big && below_ok
                    }
                };
                if too_small {
                    out.probe(p::SCRATCH_TOO_SMALL_ERR);
                    return Ok(report);
                }
                return Err(Fail {
                    clause: "same-value-as-slice-path",
                    detail: format!(
                        "message {i}: slice decoding of stream bytes {}..{} succeeds, the reader path failed with {e:?} although the reader never failed and {cur_len} scratch bytes were available{}",
                        rf.start,
                        rf.end,
                        match (c.strict[i], c.min_ok.borrow().get(i)) {
                            (Some(n), _) => format!(" ({n} needed: its borrowed strings and byte arrays)"),
                            (None, Some(m)) if *m != usize::MAX => format!(" (the same message decoded with {m} bytes available)"),
                            _ => String::new(),
                        }
                    ),
                });
            }
        }
    }
    Ok(report)
}

// ---- one trace ---------------------------------------------------------------------------------------

fn exec_c11(t: &C11Trace, out: &mut Outcome<C11Trace>) {
    if t.msgs.is_empty() {
        out.skipped = Some("no_messages");
        return;
    }
    // yardstick for the writer: the plain encodings
    let mut plains = Vec::new();
    for m in &t.msgs {
        let v = m.ser();
        match sut::call(|| postcard::to_allocvec(&v)) {
            Ok(Ok(p)) => plains.push(p),
            _ => {
                out.skipped = Some("workload_unencodable");
                return;
            }
        }
    }
    let total_w: usize = plains.iter().map(|p| p.len()).sum();
    let key = |c: &str| format!("{:?} {}", t.adapter, c);
    macro_rules! report {
        ($fail:expr, $narrow:expr) => {{
            let fl: Fail = $fail;
            if fl.clause == "harness-cap" {
                out.skipped = Some("device_call_cap_hit");
            } else {
                out.fail("C11", fl.clause, key(fl.clause), fl.detail, $narrow);
            }
            return;
        }};
    }
    // ---------------- writer ----------------
    let wcfg = WCfg {
        adapter: t.adapter,
        msgs: &t.msgs,
        plains: &plains,
        script: &t.wscript,
        buffering: t.buffering,
        flush_err: t.flush_err,
        fault: t.wfault,
        dev: t.dev,
    };
    crate::supervisor::set_ctx([2, 0, 0, 0]);
    let wire = match write_chain(&wcfg, out) {
        Ok(w) => w,
        Err(fl) => report!(fl, Some(C11Trace { enumerate: false, ..t.clone() })),
    };
    if t.enumerate {
        for k in 0..=total_w {
            out.extra[X_FAULT_OFFSETS] += 1;
            let c = WCfg { fault: Some(k), flush_err: false, ..wcfg };
            crate::supervisor::set_ctx([2, 1, k as u64, 0]);
            if let Err(fl) = write_chain(&c, out) {
                report!(fl, Some(C11Trace { enumerate: false, wfault: Some(k), flush_err: false, ..t.clone() }));
            }
        }
        let c = WCfg { fault: None, flush_err: true, ..wcfg };
        if let Err(fl) = write_chain(&c, out) {
            report!(fl, Some(C11Trace { enumerate: false, wfault: None, flush_err: true, ..t.clone() }));
        }
    }
    // ---------------- reader ----------------
    let writer_clean = t.wfault.map_or(true, |k| k >= total_w)
        && !t.flush_err
        && !t.wscript.contains(&WStep::Zero)
        && !t.wscript.contains(&WStep::ZeroForever);
    let mut stream: Vec<u8> = if t.pipe && writer_clean && wire.len() == total_w {
        out.probe(p::PIPE_ROUNDTRIP);
        wire
    } else {
        t.msgs.iter().flat_map(|m| m.ref_encode()).collect()
    };
    let msgs_len = stream.len();
    stream.extend_from_slice(&t.trailing);
    if let Some((pos, x)) = t.stream_damage {
        if pos < msgs_len && x != 0 {
            stream[pos] ^= x;
        }
    }
    let refs = match slice_path(&t.msgs, &stream) {
        Ok(r) => r,
        Err(_) => {
            out.skipped = Some("slice_path_panics_on_stream");
            return;
        }
    };
    // what a decode needs from the scratch, where that is known without looking at the
    // implementation (from the value the slice path decodes)
    fn borrowed_len(v: &Val) -> usize {
        match v {
            Val::Str(s) => s.len(),
            Val::Bytes(b) => b.len(),
            Val::Opt(Some(x)) => borrowed_len(x),
            Val::Seq(xs) | Val::Var(_, xs) => xs.iter().map(borrowed_len).sum(),
            Val::Map(m) => m.iter().map(|(k, v)| borrowed_len(k) + borrowed_len(v)).sum(),
            _ => 0,
        }
    }
    let strict: Vec<Option<usize>> = refs
        .iter()
        .enumerate()
        .map(|(i, r)| {
            let k = t.msgs[i].shape.kinds();
            let users = shape::K_STR | shape::K_DISPLAY | shape::K_BYTES | shape::K_FLOAT | shape::K_CHAR;
            match &r.val {
                None => None,
                Some(_) if k & users == 0 => Some(0),
                Some(v) if t.borrowed && k & (shape::K_FLOAT | shape::K_CHAR) == 0 => Some(borrowed_len(v)),
                Some(_) => None,
            }
        })
        .collect();
    let min_ok: RefCell<Vec<usize>> = RefCell::new(Vec::new());
    let stream = Rc::new(stream);
    #[allow(non_snake_case)]
    let BIG: usize = BIG_MIN.max(stream.len() + 64).min(arena::RW - 16);
    // measure the scratch each message needs: big scratch, the trace's schedule without its
    // Interrupted steps (fatal on embedded-io, and the required scratch does not depend on them),
    // no fault
    let calm: Vec<RStep> = t.rscript.iter().copied().filter(|s| *s != RStep::Interrupted).collect();
    let measure = RCfg {
        adapter: t.adapter,
        borrowed: t.borrowed,
        msgs: &t.msgs,
        stream: &stream,
        refs: &refs,
        script: &calm,
        fault: None,
        dev: DevCfg::default(),
        need: None,
        strict: &strict,
        avail_big: None,
        min_ok: &min_ok,
    };
    let base = RCfg {
        adapter: t.adapter,
        borrowed: t.borrowed,
        msgs: &t.msgs,
        stream: &stream,
        refs: &refs,
        script: &t.rscript,
        fault: None,
        dev: t.dev,
        need: None,
        strict: &strict,
        avail_big: None,
        min_ok: &min_ok,
    };
    crate::supervisor::set_ctx([3, 0, 0, BIG as u64]);
    let (mut measured, _) = arena::with_arena(|a| a.with_buf(BIG, t.place, |buf| read_chain(&measure, buf, out), |_| None));
    #[allow(non_snake_case)]
    let mut BIG = BIG;
    if matches!(&measured, Err(fl) if fl.clause == "same-value-as-slice-path") && BIG < arena::RW - 16 {
        // perhaps this implementation legitimately wants more scratch than the stream has bytes
        // (padded or aligned slots): measure once more with everything the arena has
        BIG = arena::RW - 16;
        min_ok.borrow_mut().clear();
        measured = arena::with_arena(|a| a.with_buf(BIG, t.place, |buf| read_chain(&measure, buf, out), |_| None)).0;
    }
    let measured = match measured {
        Ok(m) => m,
        Err(fl) => report!(
            fl,
            Some(C11Trace { enumerate: false, rfault: None, scratch: Scratch::Big, rscript: calm.clone(), ..t.clone() })
        ),
    };
    // "the unused scratch returned": decode once more into a scratch pre-filled with the
    // complementary bytes. A byte the decode wrote holds the same value in both runs, so it cannot
    // equal both fills; bytes at the end of the region a message consumed that kept the fill in
    // BOTH runs were consumed but never written — unused scratch that was not handed back.
    crate::supervisor::set_ctx([3, 0, 1, BIG as u64]);
    let (second, _) = arena::with_arena(|a| {
        a.with_buf(
            BIG,
            t.place,
            |buf| {
                for b in buf.iter_mut() {
                    *b = !*b;
                }
                read_chain(&measure, buf, out)
            },
            |_| None,
        )
    });
    if let Ok(sec) = &second {
        for i in 0..measured.decoded.min(sec.decoded) {
            let leak = measured.trailing_unwritten[i].min(sec.trailing_unwritten[i]);
            if leak > 0 {
                out.fail(
                    "C11",
                    "scratch-remainder",
                    key("scratch-remainder"),
                    format!(
                        "message {i} consumed {} scratch bytes but never wrote the last {leak} of them (same bytes untouched under two different pre-fills): unused scratch was not returned",
                        measured.used[i]
                    ),
                    Some(C11Trace { enumerate: false, rfault: None, scratch: Scratch::Big, rscript: calm.clone(), ..t.clone() }),
                );
                return;
            }
        }
    }
    let all_ok = refs.iter().all(|r| r.val.is_some());
    if all_ok && measured.decoded == refs.len() && !t.trailing.is_empty() {
        out.probe(p::TRAILING_UNDELIVERED);
    }
    // need[i] for messages the slice path accepts; unknown (0) beyond
    let mut need: Vec<usize> = measured.used.clone();
    need.resize(refs.len(), 0);
    let need_total: usize = need.iter().sum();
    // the trace's own configuration
    let s = match t.scratch {
        Scratch::Big => BIG,
        Scratch::Exact => need_total,
        Scratch::Size(s) => s.min(BIG),
    };
    if s < need_total {
        out.fault(f::SCRATCH_SHORT);
    }
    let base = RCfg { avail_big: Some(&measured.avail), ..base };
    let own = RCfg { fault: t.rfault, need: Some(&need), ..base };
    crate::supervisor::set_ctx([3, 1, 0, s as u64]);
    let (r, stray) = arena::with_arena(|a| a.with_buf(s, t.place, |buf| read_chain(&own, buf, out), |_| None));
    if let Err(fl) = r {
        report!(fl, Some(C11Trace { enumerate: false, scratch: Scratch::Size(s), ..t.clone() }));
    }
    if let Some(st) = stray {
        out.fail(
            "C11",
            "scratch-bounds",
            key("scratch-bounds"),
            format!("a byte at offset {} relative to the {s}-byte scratch buffer was overwritten", st.rel),
            Some(C11Trace { enumerate: false, scratch: Scratch::Size(s), ..t.clone() }),
        );
        return;
    }
    if t.enumerate {
        let end_all = refs.last().map(|r| r.end).unwrap_or(0);
        // hard error / EOF at every stream offset of the messages (and the first byte after)
        for k in 0..=end_all {
            for kind in [RKind::HardError, RKind::Eof] {
                out.extra[X_FAULT_OFFSETS] += 1;
                let c = RCfg { fault: Some((k, kind)), need: Some(&need), ..base };
                crate::supervisor::set_ctx([3, 2 + (kind == RKind::Eof) as u64, k as u64, BIG as u64]);
                let (r, _) = arena::with_arena(|a| a.with_buf(BIG, t.place, |buf| read_chain(&c, buf, out), |_| None));
                if let Err(fl) = r {
                    report!(
                        fl,
                        Some(C11Trace { enumerate: false, rfault: Some((k, kind)), scratch: Scratch::Big, ..t.clone() })
                    );
                }
            }
        }
        // every scratch size 0..=R+1, at both guard placements
        for s in 0..=need_total + 1 {
            for place in [Place::End, Place::Start] {
                out.extra[X_SCRATCH_SIZES] += 1;
                if s < need_total {
                    out.fault(f::SCRATCH_SHORT);
                }
                let c = RCfg { fault: None, need: Some(&need), ..base };
                crate::supervisor::set_ctx([3, 4 + (place == Place::Start) as u64, 0, s as u64]);
                let (r, stray) = arena::with_arena(|a| a.with_buf(s, place, |buf| read_chain(&c, buf, out), |_| None));
                if let Err(fl) = r {
                    report!(
                        fl,
                        Some(C11Trace { enumerate: false, rfault: None, scratch: Scratch::Size(s), place, ..t.clone() })
                    );
                }
                if let Some(st) = stray {
                    out.fail(
                        "C11",
                        "scratch-bounds",
                        key("scratch-bounds"),
                        format!("a byte at offset {} relative to the {s}-byte scratch buffer was overwritten", st.rel),
                        Some(C11Trace { enumerate: false, rfault: None, scratch: Scratch::Size(s), place, ..t.clone() }),
                    );
                    return;
                }
            }
        }
    }
    if let Some(off) = arena::with_arena(|a| a.verify_all()) {
        out.fail(
            "C11",
            "scratch-bounds",
            key("scratch-bounds"),
            format!("arena byte at offset {off}, far from the scratch buffer, was overwritten"),
            None,
        );
        return;
    }
    // signature
    let fam = |n: usize, all_one: bool, whole: bool| -> u8 {
        if n == 0 || whole {
            0
        } else if all_one {
            1
        } else {
            2
        }
    };
    let wfam = fam(
        t.wscript.len(),
        t.wscript.iter().all(|s| *s == WStep::Accept(1)),
        t.wscript.iter().all(|s| matches!(s, WStep::Accept(k) if *k > 4096)),
    );
    let rfam = fam(
        t.rscript.len(),
        t.rscript.iter().all(|s| *s == RStep::Deliver(1)),
        t.rscript.iter().all(|s| matches!(s, RStep::Deliver(k) if *k > 4096)),
    );
    let nontrivial = wfam != 0 || rfam != 0 || t.wfault.is_some() || t.rfault.is_some() || t.enumerate || t.flush_err;
    if nontrivial {
        let mut sg = Fnv::new();
        sg.byte(t.adapter as u8);
        sg.byte(wfam);
        sg.byte(rfam);
        sg.byte(t.borrowed as u8);
        sg.byte(t.enumerate as u8);
        sg.u64(t.msgs.iter().fold(0u32, |a, m| a | m.shape.kinds()) as u64);
        sg.byte(t.msgs.len().min(5) as u8);
        sg.byte(match t.rfault {
            None => 0,
            Some((_, RKind::HardError)) => 1,
            Some((_, RKind::Eof)) => 2,
        });
        sg.byte(t.wfault.is_some() as u8 | (t.flush_err as u8) << 1 | (t.buffering as u8) << 2);
        sg.byte(match t.scratch {
            Scratch::Big => 0,
            Scratch::Exact => 1,
            Scratch::Size(x) if x < need_total => 2,
            Scratch::Size(_) => 3,
        });
        sg.usize(need_total.min(64));
        out.sigs.push(sg.finish());
    }
}

// ---- generation --------------------------------------------------------------------------------------

fn gen_wscript(rng: &mut Rng, std: bool, intr_eio: bool) -> Vec<WStep> {
    let mut v = Vec::new();
    match rng.below(6) {
        0 => {}
        1 => v.push(WStep::Accept(1)),
        2 => {
            for _ in 0..rng.range(1, 6) {
                v.push(WStep::Accept(rng.range(1, 4)));
            }
        }
        _ => {
            for _ in 0..rng.range(1, 8) {
                v.push(match rng.below(10) {
                    0 | 1 if std || intr_eio => WStep::Interrupted,
                    2 => WStep::Accept(usize::MAX),
                    3 => WStep::Accept(rng.range(1, 300)),
                    _ => WStep::Accept(rng.range(1, 5)),
                });
            }
        }
    }
    // Ok(0): legal for std::io::Write and for embedded-io 0.4 ("semantics are the same as
    // std::io::Write"; its slice writer answers Ok(0) when full); forbidden by embedded-io 0.6
    if (std || cfg!(feature = "eio04")) && rng.chance(1, 25) {
        let i = rng.usize_below(v.len() + 1);
        v.insert(i, if rng.chance(1, 2) { WStep::Zero } else { WStep::ZeroForever });
    }
    v
}

fn gen_rscript(rng: &mut Rng, std: bool, intr_eio: bool) -> Vec<RStep> {
    let mut v = Vec::new();
    match rng.below(6) {
        0 => {}
        1 => v.push(RStep::Deliver(1)),
        2 => {
            for _ in 0..rng.range(1, 6) {
                v.push(RStep::Deliver(rng.range(1, 4)));
            }
        }
        _ => {
            for _ in 0..rng.range(1, 8) {
                v.push(match rng.below(10) {
                    0 | 1 if std || intr_eio => RStep::Interrupted,
                    2 => RStep::Deliver(usize::MAX),
                    3 => RStep::Deliver(rng.range(1, 300)),
                    _ => RStep::Deliver(rng.range(1, 5)),
                });
            }
        }
    }
    v
}

impl Scenario for C11 {
    type Trace = C11Trace;
    const ID: &'static str = "C11";
    const TAG: u64 = 0xC11;
    const LEVEL: &'static str = "fault_enumeration";
    fn probe_names() -> &'static [&'static str] {
        &p::NAMES
    }
    fn fault_names() -> &'static [&'static str] {
        &f::NAMES
    }
    fn extra_names() -> &'static [&'static str] {
        &["write_chains", "read_chains", "fault_offsets_enumerated", "scratch_sizes_enumerated", "device_calls"]
    }
    fn default_runs(tier: Tier) -> u64 {
        match tier {
            Tier::Quick => 400_000,
            Tier::Thorough => 15_000_000,
        }
    }
    fn gen(rng: &mut Rng, _tier: Tier, run: u64) -> C11Trace {
        let adapter = if rng.chance(1, 2) { Adapter::Std } else { Adapter::Eio };
        let std = adapter == Adapter::Std;
        // embedded-io 0.6 devices may fail with ErrorKind::Interrupted (fatal there, but legal)
        let intr_eio = !std && cfg!(feature = "eio06") && rng.chance(1, 3);
        // rarely: a long-lived stream, hundreds of small messages through one writer and one reader
        let long = rng.chance(1, 500) && !crate::runner::small();
        let nmsgs = match rng.below(8) {
            _ if long => *rng.pick(&[257usize, 300, 600]),
            0..=3 => 1,
            4 | 5 => 2,
            6 => 3,
            _ => rng.range(4, 5),
        };
        let budget = match rng.below(12) {
            _ if crate::runner::small() => *rng.pick(&[4usize, 10, 24]),
            _ if long => 6,
            0 => 600,
            1 | 2 => 150,
            3..=6 => 40,
            _ => 14,
        };
        let cfg = GenCfg::swarm(rng, budget);
        let msgs: Vec<Msg> = (0..nmsgs)
            .map(|_| {
                // several borrowed fields in one message, often
                if rng.chance(1, 4) {
                    let n = rng.range(2, 5);
                    let shape = shape::Shape::Tuple(
                        (0..n)
                            .map(|_| match rng.below(4) {
                                0 => shape::Shape::Str,
                                1 => shape::Shape::Bytes,
                                2 => shape::Shape::F32,
                                _ => shape::gen_shape(rng, &cfg, 2),
                            })
                            .collect(),
                    );
                    let mut b = budget as isize;
                    let val = shape::gen_val(rng, &shape, &mut b);
                    Msg { shape, val }
                } else {
                    Msg::gen_fitting(rng, &cfg, budget)
                }
            })
            .collect();
        // now and then one really large block (4 KiB .. 70 kB): lengths past 12 and 16 bits cross
        // the writer, the reader and the scratch buffer in one piece
        let large = rng.chance(1, 300) && !crate::runner::small();
        let msgs: Vec<Msg> = if large {
            let n = *rng.pick(&[4095usize, 4096, 4097, 16383, 16384, 65535, 65536, 70000]);
            let data: Vec<u8> = (0..n).map(|i| (i as u8).wrapping_mul(31).wrapping_add(7)).collect();
            let big = match rng.below(3) {
                0 => Msg { shape: shape::Shape::Bytes, val: Val::Bytes(data) },
                1 => Msg {
                    shape: shape::Shape::Str,
                    val: Val::Str(data.iter().map(|b| (b'a' + b % 26) as char).collect()),
                },
                _ => Msg {
                    shape: shape::Shape::Tuple(vec![shape::Shape::U8, shape::Shape::Bytes, shape::Shape::Str]),
                    val: Val::Seq(vec![Val::Uint(7), Val::Bytes(data), Val::Str("tail".into())]),
                },
            };
            if rng.chance(1, 2) {
                vec![big, Msg { shape: shape::Shape::U16, val: Val::Uint(300) }]
            } else {
                vec![big]
            }
        } else {
            msgs
        };
        let total: usize = msgs.iter().map(|m| m.ref_encode().len()).sum();
        let trailing = match rng.below(4) {
            0 => vec![],
            _ => {
                let n = rng.range(1, 8);
                rng.bytes(n)
            }
        };
        let enumerate = run % 4 == 0 && total <= if crate::runner::small() { 24 } else { 200 };
        // faults biased to interesting places: first/last byte of a message, message boundary
        let mut ends = Vec::new();
        let mut acc = 0;
        for m in &msgs {
            acc += m.ref_encode().len();
            ends.push(acc);
        }
        let pick_offset = |rng: &mut Rng| -> usize {
            match rng.below(6) {
                0 => 0,
                1 => ends[rng.usize_below(ends.len())].saturating_sub(1),
                2 => ends[rng.usize_below(ends.len())],
                3 => (ends[rng.usize_below(ends.len())] + 1).min(total),
                _ => rng.range(0, total),
            }
        };
        let wfault = if rng.chance(1, 3) { Some(pick_offset(rng)) } else { None };
        let rfault = if rng.chance(1, 3) {
            Some((pick_offset(rng), if rng.chance(1, 2) { RKind::HardError } else { RKind::Eof }))
        } else {
            None
        };
        let mut t = C11Trace {
            adapter,
            msgs,
            trailing,
            borrowed: rng.chance(1, 2),
            stream_damage: if rng.chance(1, 8) && total > 0 {
                Some((rng.usize_below(total), 1 << rng.below(8)))
            } else {
                None
            },
            wscript: if large {
                match rng.below(4) {
                    0 => vec![],
                    1 => vec![WStep::Accept(4096)],
                    2 => vec![WStep::Accept(4095), WStep::Accept(1)],
                    _ => vec![WStep::Accept(rng.range(1000, 70000))],
                }
            } else {
                gen_wscript(rng, std, intr_eio)
            },
            buffering: rng.chance(1, 3),
            flush_err: rng.chance(1, 12),
            wfault,
            rscript: if large {
                match rng.below(4) {
                    0 => vec![],
                    1 => vec![RStep::Deliver(4096)],
                    2 => vec![RStep::Deliver(65535), RStep::Deliver(1)],
                    _ => vec![RStep::Deliver(rng.range(1000, 70000))],
                }
            } else {
                gen_rscript(rng, std, intr_eio)
            },
            rfault,
            scratch: match rng.below(5) {
                0 | 1 => Scratch::Big,
                2 => Scratch::Exact,
                _ if large => Scratch::Size(total - rng.range(0, 3).min(total)),
                _ => Scratch::Size(rng.small(40)),
            },
            place: if rng.chance(2, 3) { Place::End } else { Place::Start },
            pipe: rng.chance(1, 2),
            enumerate,
            dev: DevCfg::default(),
        };
        // device behaviour beyond the script: long runs of retryable answers (a retry budget
        // that gives up must give up with an error), other error kinds, a device that keeps
        // failing once it has failed
        if std && !large && !long && rng.chance(1, 5) {
            let cap = rng.range(3, 20);
            t.dev.intr_cap = cap as u8;
            let k = rng.range(3, cap);
            if rng.chance(2, 3) {
                if t.rscript.is_empty() {
                    t.rscript.push(RStep::Deliver(rng.range(1, 300)));
                }
                let i = rng.usize_below(t.rscript.len() + 1);
                for _ in 0..k {
                    t.rscript.insert(i, RStep::Interrupted);
                }
            }
            if rng.chance(2, 3) {
                if t.wscript.is_empty() {
                    t.wscript.push(WStep::Accept(rng.range(1, 300)));
                }
                let i = rng.usize_below(t.wscript.len() + 1);
                for _ in 0..k {
                    t.wscript.insert(i, WStep::Interrupted);
                }
            }
        }
        if std && rng.chance(1, 3) {
            t.dev.hard_kind = rng.below(dev::HARD_KINDS as u64) as u8;
        }
        if t.dev.hard_kind != dev::KIND_WOULD_BLOCK && rng.chance(1, 6) {
            t.dev.persist = true;
        }
        t
    }
    fn exec(t: &C11Trace, out: &mut Outcome<C11Trace>) {
        exec_c11(t, out)
    }
    fn focus(t: &C11Trace, ctx: [u64; 4]) -> Option<C11Trace> {
        let mut c = C11Trace { enumerate: false, ..t.clone() };
        match (ctx[0], ctx[1]) {
            (2, 1) => {
                c.wfault = Some(ctx[2] as usize);
                c.flush_err = false;
            }
            (3, 0) => {
                c.rfault = None;
                c.scratch = Scratch::Big;
            }
            (3, 1) => c.scratch = Scratch::Size(ctx[3] as usize),
            (3, 2) | (3, 3) => {
                c.rfault = Some((ctx[2] as usize, if ctx[1] == 3 { RKind::Eof } else { RKind::HardError }));
                c.scratch = Scratch::Big;
            }
            (3, 4) | (3, 5) => {
                c.rfault = None;
                c.scratch = Scratch::Size(ctx[3] as usize);
                c.place = if ctx[1] == 5 { Place::Start } else { Place::End };
            }
            _ => return None,
        }
        Some(c)
    }
    fn shrink(t: &C11Trace) -> Vec<C11Trace> {
        let mut v = Vec::new();
        let push = |v: &mut Vec<C11Trace>, f: &dyn Fn(&mut C11Trace)| {
            let mut c = t.clone();
            f(&mut c);
            v.push(c);
        };
        if t.msgs.len() > 1 {
            for i in 0..t.msgs.len() {
                push(&mut v, &|c| {
                    c.msgs.remove(i);
                });
            }
        }
        if !t.trailing.is_empty() {
            push(&mut v, &|c| c.trailing.clear());
        }
        if t.stream_damage.is_some() {
            push(&mut v, &|c| c.stream_damage = None);
        }
        if t.pipe {
            push(&mut v, &|c| c.pipe = false);
        }
        if t.wfault.is_some() {
            push(&mut v, &|c| c.wfault = None);
        }
        if t.rfault.is_some() {
            push(&mut v, &|c| c.rfault = None);
        }
        if t.flush_err {
            push(&mut v, &|c| c.flush_err = false);
        }
        if t.buffering {
            push(&mut v, &|c| c.buffering = false);
        }
        if !t.wscript.is_empty() {
            push(&mut v, &|c| c.wscript.clear());
            if t.wscript != vec![WStep::Accept(1)] {
                push(&mut v, &|c| c.wscript = vec![WStep::Accept(1)]);
            }
            if t.wscript.len() > 1 {
                for i in 0..t.wscript.len() {
                    push(&mut v, &|c| {
                        c.wscript.remove(i);
                    });
                }
            }
        }
        if !t.rscript.is_empty() {
            push(&mut v, &|c| c.rscript.clear());
            if t.rscript != vec![RStep::Deliver(1)] {
                push(&mut v, &|c| c.rscript = vec![RStep::Deliver(1)]);
            }
            if t.rscript.len() > 1 {
                for i in 0..t.rscript.len() {
                    push(&mut v, &|c| {
                        c.rscript.remove(i);
                    });
                }
            }
        }
        if t.borrowed {
            push(&mut v, &|c| c.borrowed = false);
        }
        if t.dev != DevCfg::default() {
            push(&mut v, &|c| c.dev = DevCfg::default());
            if t.dev.persist {
                push(&mut v, &|c| c.dev.persist = false);
            }
            if t.dev.hard_kind != 0 {
                push(&mut v, &|c| c.dev.hard_kind = 0);
            }
            if t.dev.intr_cap > 2 {
                push(&mut v, &|c| c.dev.intr_cap -= 1);
            }
        }
        if t.scratch != Scratch::Big {
            push(&mut v, &|c| c.scratch = Scratch::Big);
        }
        if let Scratch::Size(s) = t.scratch {
            if s > 0 {
                push(&mut v, &|c| c.scratch = Scratch::Size(s - 1));
                push(&mut v, &|c| c.scratch = Scratch::Size(s / 2));
            }
        }
        if t.place != Place::End {
            push(&mut v, &|c| c.place = Place::End);
        }
        if let Some(k) = t.wfault {
            if k > 0 {
                push(&mut v, &|c| c.wfault = Some(k - 1));
                push(&mut v, &|c| c.wfault = Some(0));
            }
        }
        if let Some((k, kind)) = t.rfault {
            if k > 0 {
                push(&mut v, &|c| c.rfault = Some((k - 1, kind)));
                push(&mut v, &|c| c.rfault = Some((0, kind)));
            }
        }
        // simpler messages; fault offsets may move, so search them again
        for i in 0..t.msgs.len() {
            for m in shape::shrink_msg(&t.msgs[i]) {
                let mut c = t.clone();
                c.msgs[i] = m;
                let had_fault = c.wfault.is_some() || c.rfault.is_some() || matches!(c.scratch, Scratch::Size(_));
                v.push(c.clone());
                if had_fault {
                    c.enumerate = true;
                    v.push(c);
                }
            }
        }
        v
    }
    fn rule() -> &'static str {
        "one case = one stream of 1-5 messages written through a simulated std::io / embedded-io writer (seeded accept schedule incl. 1-byte, short, whole, Interrupted, Ok(0), buffering-until-flush, failing flush, hard error at an offset) and read back through a simulated reader (seeded delivery schedule, hard error / end of stream at an offset) into a guarded scratch buffer (big / exact / given size), chained through the returned reader and scratch remainder; every fourth case additionally enumerates completely: a hard write error after every accepted byte count 0..=E, a hard read error and an end of stream at every stream offset 0..=E, every scratch size 0..=R+1 at both guard placements. evaluations = real to_io/to_eio/from_io/from_eio calls checked. distinct_nontrivial counts distinct (adapter, write/read schedule family, owned/borrowed, enumerated?, kinds in the shapes, number of messages, fault kinds configured, scratch class, required scratch) over cases with a non-whole schedule or a fault."
    }
    fn real_components() -> &'static [&'static str] {
        &[
            "postcard::{to_io, to_eio, from_io, from_eio, to_allocvec, take_from_bytes}",
            "postcard::ser_flavors::{io::WriteFlavor, eio::WriteFlavor}, postcard::de_flavors::io::{io::IOReader, eio::EIOReader, SlidingBuffer}",
            "postcard::Serializer / Deserializer",
            "std::io::{Read::read_exact, Write::write_all}, embedded_io::{Read::read_exact, Write::write_all} default methods",
        ]
    }
    fn simulated_components() -> &'static [&'static str] {
        &[
            "SimWriter / SimReader implementing std::io::{Write, Read} and embedded-io {Write, Read} (0.6 in the default build, 0.4 in the second build): per-call accept/deliver amounts, Interrupted, Ok(0), hard error, end of stream, buffering until flush, failing flush — all from the trace",
            "the caller's scratch buffer: exact-size slice in a canary-filled arena flush against a PROT_NONE guard page",
            "the reader's stream: the harness's own wire encoding of the messages (or, in pipe mode, what the simulated writer received)",
        ]
    }
    fn assumptions() -> Vec<String> {
        vec![
            format!("embedded-io version in this build: {}; Ok(0) is never injected into embedded-io writers (both versions document it as a contract violation and their own write_all panics on it).", dev::EIO_VERSION),
            "Yardsticks are relative, as the statement says: bytes on the wire vs to_allocvec of the same value; value and consumed length vs take_from_bytes on the same stream bytes. If the slice path rejects the bytes the reader path must reject them too.".into(),
            "Required scratch R is measured per message with a 4096-byte scratch, not assumed. For scratch < R: no panic, no out-of-bounds write, and either an error or a correct value.".into(),
            "ErrorKind::Interrupted is judged on integrity only: the call may succeed (then everything holds exactly) or fail (then prefix / no-over-read hold).".into(),
            "After a hard error the device keeps working and recording, so code that swallows an error and carries on shows up as a hole in the accepted bytes or as an Ok result.".into(),
        ]
    }
}

#[allow(dead_code)]
fn _unused(_: &WLog) {}
