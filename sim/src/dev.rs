//! Simulated byte transports: a writer and a reader whose every call is decided by the trace
//! (how much is accepted / delivered, `Interrupted`, hard error, end of stream, `Ok(0)`, failing
//! `flush`, buffering). They implement `std::io` and the enabled `embedded-io` version.
//!
//! Device code runs inside calls of the code under test, so it never panics; everything it
//! observes goes to a log the harness owns through a shared handle (`from_io` drops the reader on
//! error). A device never grants a transfer that would step over a configured fault offset.

use serde::{Deserialize, Serialize};
use std::cell::RefCell;
use std::rc::Rc;

pub const CALL_CAP: u64 = 100_000;

#[derive(Clone, Copy, Debug, PartialEq, Eq, Serialize, Deserialize)]
pub enum WStep {
    /// accept up to k bytes (at least 1)
    Accept(usize),
    /// std only: `ErrorKind::Interrupted`, nothing accepted
    Interrupted,
    /// std only: one `Ok(0)` on a non-empty buffer, the next call accepts again (not an error: a
    /// caller may give up with WriteZero, as std's write_all does, or try again)
    Zero,
    /// std only: from now on every write returns `Ok(0)` — the device is full for good
    ZeroForever,
}

#[derive(Clone, Copy, Debug, PartialEq, Eq, Serialize, Deserialize)]
pub enum RStep {
    /// deliver up to k bytes (at least 1)
    Deliver(usize),
    /// std only: `ErrorKind::Interrupted`, nothing delivered
    Interrupted,
}

#[derive(Clone, Copy, Debug, PartialEq, Eq, Serialize, Deserialize)]
pub enum RKind {
    HardError,
    Eof,
}

/// Per-trace device behaviour beyond the script.
#[derive(Clone, Copy, Debug, PartialEq, Eq, Serialize, Deserialize)]
pub struct DevCfg {
    /// at most this many retryable answers (`Interrupted`, one-off `Ok(0)`) in a row; then the
    /// device transfers a byte (a retry loop over a device that never progresses is not a defect)
    pub intr_cap: u8,
    /// std only: the `ErrorKind` a hard error carries, see `hard_kind()`
    pub hard_kind: u8,
    /// after its hard error the device fails every further call as well (else: keeps working)
    pub persist: bool,
}

impl Default for DevCfg {
    fn default() -> Self {
        DevCfg { intr_cap: 2, hard_kind: 0, persist: false }
    }
}

pub const HARD_KINDS: usize = 6;
/// 1 = WouldBlock: the only kind a caller may reasonably retry (judged leniently)
pub const KIND_WOULD_BLOCK: u8 = 1;

fn hard_kind(k: u8, write: bool) -> std::io::ErrorKind {
    use std::io::ErrorKind as K;
    match k % HARD_KINDS as u8 {
        0 => if write { K::BrokenPipe } else { K::ConnectionReset },
        1 => K::WouldBlock,
        2 => K::TimedOut,
        3 => if write { K::WriteZero } else { K::UnexpectedEof },
        4 => K::Other,
        _ => K::PermissionDenied,
    }
}

#[derive(Default, Debug)]
pub struct WLog {
    /// every byte the device accepted, in order (also after a fault: a hole shows up here)
    pub accepted: Vec<u8>,
    /// bytes that reached the wire (== accepted for a direct device; grows at flush for a buffering one)
    pub wire: Vec<u8>,
    pub calls: u64,
    pub hard_fired: bool,
    /// a one-off Ok(0) was returned (judged on integrity, like Interrupted)
    pub zero_once: u64,
    /// the device has started to answer Ok(0) forever (a failure: the caller must give up)
    pub zero_fired: bool,
    pub zero_answers: u64,
    pub flush_fired: bool,
    pub flushes: u64,
    pub interrupted: u64,
    /// longest run of consecutive retryable answers
    pub max_intr_run: u8,
    /// calls refused by a device that keeps failing after its hard error
    pub refused_after_fault: u64,
    pub short_writes: u64,
    pub max_chain: u32,
    chain: u32,
    pub writes_after_fault: u64,
    pub cap_hit: bool,
    pub events: Vec<(u8, u32, u32)>,
}

impl WLog {
    fn push_ev(&mut self, e: (u8, u32, u32)) {
        if self.events.len() < 512 {
            self.events.push(e);
        }
    }
    pub fn any_fault_fired(&self) -> bool {
        self.hard_fired || self.zero_fired || self.flush_fired
    }
}

#[derive(Default, Debug)]
pub struct RLog {
    /// bytes delivered so far == stream position
    pub pos: usize,
    pub calls: u64,
    pub fired: Option<RKind>,
    pub reads_after_fault: u64,
    pub natural_eof: u64,
    /// how often the device answered Ok(0) (end of stream) to a non-empty read
    pub eof_answers: u64,
    pub interrupted: u64,
    /// longest run of consecutive retryable answers
    pub max_intr_run: u8,
    /// calls refused by a device that keeps failing after its hard error
    pub refused_after_fault: u64,
    pub short_reads: u64,
    pub max_chain: u32,
    chain: u32,
    pub cap_hit: bool,
    pub events: Vec<(u8, u32, u32)>,
}

impl RLog {
    fn push_ev(&mut self, e: (u8, u32, u32)) {
        if self.events.len() < 512 {
            self.events.push(e);
        }
    }
}

pub enum IoOut {
    Ok(usize),
    Interrupted,
    Hard,
}

pub struct SimWriter {
    pub log: Rc<RefCell<WLog>>,
    script: Vec<WStep>,
    si: usize,
    fault_at: Option<usize>,
    buffering: bool,
    flush_err: bool,
    intr_run: u8,
    cfg: DevCfg,
}

impl SimWriter {
    pub fn new(script: Vec<WStep>, fault_at: Option<usize>, buffering: bool, flush_err: bool, cfg: DevCfg) -> (SimWriter, Rc<RefCell<WLog>>) {
        let log = Rc::new(RefCell::new(WLog::default()));
        (
            SimWriter { log: log.clone(), script, si: 0, fault_at, buffering, flush_err, intr_run: 0, cfg },
            log,
        )
    }

    fn next_step(&mut self) -> WStep {
        if self.script.is_empty() {
            return WStep::Accept(usize::MAX);
        }
        let s = self.script[self.si % self.script.len()];
        self.si += 1;
        s
    }

    /// `std_semantics`: `Ok(0)` may be injected; `intr`: a retryable `Interrupted` error may be injected
    pub fn do_write(&mut self, buf: &[u8], std_semantics: bool, intr: bool) -> IoOut {
        let mut log = self.log.borrow_mut();
        log.calls += 1;
        if log.calls > CALL_CAP {
            log.cap_hit = true;
            return IoOut::Hard;
        }
        if buf.is_empty() {
            return IoOut::Ok(0);
        }
        if let Some(k) = self.fault_at {
            if log.accepted.len() == k && !log.hard_fired {
                log.hard_fired = true;
                let at = k as u32;
                log.push_ev((b'E', at, buf.len() as u32));
                return IoOut::Hard;
            }
        }
        if log.hard_fired && self.cfg.persist {
            log.refused_after_fault += 1;
            let at = log.accepted.len() as u32;
            log.push_ev((b'E', at, buf.len() as u32));
            return IoOut::Hard;
        }
        if log.zero_fired {
            log.zero_answers += 1;
            return IoOut::Ok(0);
        }
        if log.any_fault_fired() {
            log.writes_after_fault += 1;
        }
        drop(log);
        let step = self.next_step();
        let mut log = self.log.borrow_mut();
        let k = match step {
            WStep::Interrupted if intr && self.intr_run < self.cfg.intr_cap => {
                self.intr_run += 1;
                log.max_intr_run = log.max_intr_run.max(self.intr_run);
                log.interrupted += 1;
                let at = log.accepted.len() as u32;
                log.push_ev((b'I', at, buf.len() as u32));
                return IoOut::Interrupted;
            }
            WStep::Zero if std_semantics && self.intr_run < self.cfg.intr_cap.min(2) => {
                self.intr_run += 1;
                log.zero_once += 1;
                let at = log.accepted.len() as u32;
                log.push_ev((b'z', at, buf.len() as u32));
                return IoOut::Ok(0);
            }
            WStep::ZeroForever if std_semantics => {
                log.zero_fired = true;
                log.zero_answers += 1;
                let at = log.accepted.len() as u32;
                log.push_ev((b'Z', at, buf.len() as u32));
                return IoOut::Ok(0);
            }
            WStep::Accept(k) => k.max(1),
            _ => 1,
        };
        self.intr_run = 0;
        let mut n = k.min(buf.len());
        if let Some(f) = self.fault_at {
            if !log.hard_fired && f > log.accepted.len() {
                n = n.min(f - log.accepted.len());
            }
        }
        let at = log.accepted.len() as u32;
        log.push_ev((b'w', at, n as u32));
        log.accepted.extend_from_slice(&buf[..n]);
        if !self.buffering {
            log.wire.extend_from_slice(&buf[..n]);
        }
        if n < buf.len() {
            log.short_writes += 1;
            log.chain += 1;
        } else {
            let c = log.chain + 1;
            if c > log.max_chain {
                log.max_chain = c;
            }
            log.chain = 0;
        }
        IoOut::Ok(n)
    }

    pub fn do_flush(&mut self) -> Result<(), ()> {
        let mut log = self.log.borrow_mut();
        log.flushes += 1;
        let at = log.accepted.len() as u32;
        if self.flush_err && !log.flush_fired {
            log.flush_fired = true;
            log.push_ev((b'F', at, 0));
            return Err(());
        }
        log.push_ev((b'f', at, 0));
        if self.buffering {
            let from = log.wire.len().min(log.accepted.len());
            let tail = log.accepted[from..].to_vec();
            log.wire.extend_from_slice(&tail);
        }
        Ok(())
    }
}

pub struct SimReader {
    pub log: Rc<RefCell<RLog>>,
    data: Rc<Vec<u8>>,
    script: Vec<RStep>,
    si: usize,
    fault: Option<(usize, RKind)>,
    intr_run: u8,
    cfg: DevCfg,
}

impl SimReader {
    pub fn new(data: Rc<Vec<u8>>, script: Vec<RStep>, fault: Option<(usize, RKind)>, cfg: DevCfg) -> (SimReader, Rc<RefCell<RLog>>) {
        let log = Rc::new(RefCell::new(RLog::default()));
        (SimReader { log: log.clone(), data, script, si: 0, fault, intr_run: 0, cfg }, log)
    }

    fn next_step(&mut self) -> RStep {
        if self.script.is_empty() {
            return RStep::Deliver(usize::MAX);
        }
        let s = self.script[self.si % self.script.len()];
        self.si += 1;
        s
    }

    pub fn do_read(&mut self, buf: &mut [u8], intr: bool) -> IoOut {
        let mut log = self.log.borrow_mut();
        log.calls += 1;
        if log.calls > CALL_CAP {
            log.cap_hit = true;
            return IoOut::Hard;
        }
        if buf.is_empty() {
            return IoOut::Ok(0);
        }
        let pos = log.pos;
        if let Some((k, kind)) = self.fault {
            if pos == k {
                match kind {
                    RKind::HardError => {
                        if log.fired.is_none() || self.cfg.persist {
                            if log.fired.is_some() {
                                log.refused_after_fault += 1;
                            }
                            log.fired = Some(RKind::HardError);
                            log.push_ev((b'E', pos as u32, buf.len() as u32));
                            return IoOut::Hard;
                        }
                        // the device keeps working after a hard error
                    }
                    RKind::Eof => {
                        if log.fired.is_some() {
                            log.reads_after_fault += 1;
                        }
                        log.fired = Some(RKind::Eof);
                        log.eof_answers += 1;
                        log.push_ev((b'0', pos as u32, buf.len() as u32));
                        return IoOut::Ok(0);
                    }
                }
            }
        }
        if log.fired.is_some() {
            log.reads_after_fault += 1;
        }
        if pos >= self.data.len() {
            log.natural_eof += 1;
            log.eof_answers += 1;
            log.push_ev((b'0', pos as u32, buf.len() as u32));
            return IoOut::Ok(0);
        }
        drop(log);
        let step = self.next_step();
        let mut log = self.log.borrow_mut();
        let k = match step {
            RStep::Interrupted if intr && self.intr_run < self.cfg.intr_cap => {
                self.intr_run += 1;
                log.max_intr_run = log.max_intr_run.max(self.intr_run);
                log.interrupted += 1;
                log.push_ev((b'I', pos as u32, buf.len() as u32));
                return IoOut::Interrupted;
            }
            RStep::Deliver(k) => k.max(1),
            _ => 1,
        };
        self.intr_run = 0;
        let mut n = k.min(buf.len()).min(self.data.len() - pos);
        if let Some((f, _)) = self.fault {
            if f > pos {
                n = n.min(f - pos);
            }
        }
        buf[..n].copy_from_slice(&self.data[pos..pos + n]);
        log.pos += n;
        log.push_ev((b'r', pos as u32, n as u32));
        if n < buf.len() {
            log.short_reads += 1;
            log.chain += 1;
        } else {
            let c = log.chain + 1;
            if c > log.max_chain {
                log.max_chain = c;
            }
            log.chain = 0;
        }
        IoOut::Ok(n)
    }
}

// ---- std::io -----------------------------------------------------------------------------------

impl std::io::Write for SimWriter {
    fn write(&mut self, buf: &[u8]) -> std::io::Result<usize> {
        match self.do_write(buf, true, true) {
            IoOut::Ok(n) => Ok(n),
            IoOut::Interrupted => Err(std::io::Error::from(std::io::ErrorKind::Interrupted)),
            IoOut::Hard => Err(std::io::Error::from(hard_kind(self.cfg.hard_kind, true))),
        }
    }
    fn flush(&mut self) -> std::io::Result<()> {
        self.do_flush().map_err(|_| std::io::Error::from(std::io::ErrorKind::Other))
    }
}

impl std::io::Read for SimReader {
    fn read(&mut self, buf: &mut [u8]) -> std::io::Result<usize> {
        match self.do_read(buf, true) {
            IoOut::Ok(n) => Ok(n),
            IoOut::Interrupted => Err(std::io::Error::from(std::io::ErrorKind::Interrupted)),
            IoOut::Hard => Err(std::io::Error::from(hard_kind(self.cfg.hard_kind, false))),
        }
    }
}

// ---- embedded-io -------------------------------------------------------------------------------

/// error type of the simulated embedded-io devices; `true` = `ErrorKind::Interrupted` (0.6 only)
#[derive(Debug)]
pub struct EioErr(pub bool);

#[cfg(feature = "eio06")]
mod eio_impl {
    use super::*;
    use embedded_io_06 as eio;
    impl eio::Error for EioErr {
        fn kind(&self) -> eio::ErrorKind {
            if self.0 {
                eio::ErrorKind::Interrupted
            } else {
                eio::ErrorKind::Other
            }
        }
    }
    impl eio::ErrorType for SimWriter {
        type Error = EioErr;
    }
    impl eio::ErrorType for SimReader {
        type Error = EioErr;
    }
    impl eio::Write for SimWriter {
        fn write(&mut self, buf: &[u8]) -> Result<usize, EioErr> {
            // embedded-io 0.6 has ErrorKind::Interrupted; its write_all / read_exact do not retry
            match self.do_write(buf, false, true) {
                IoOut::Ok(n) => Ok(n),
                IoOut::Interrupted => Err(EioErr(true)),
                IoOut::Hard => Err(EioErr(false)),
            }
        }
        fn flush(&mut self) -> Result<(), EioErr> {
            self.do_flush().map_err(|_| EioErr(false))
        }
    }
    impl eio::Read for SimReader {
        fn read(&mut self, buf: &mut [u8]) -> Result<usize, EioErr> {
            match self.do_read(buf, true) {
                IoOut::Ok(n) => Ok(n),
                IoOut::Interrupted => Err(EioErr(true)),
                IoOut::Hard => Err(EioErr(false)),
            }
        }
    }
}

#[cfg(feature = "eio04")]
mod eio_impl {
    use super::*;
    use embedded_io_04 as eio;
    impl eio::Error for EioErr {
        fn kind(&self) -> eio::ErrorKind {
            eio::ErrorKind::Other
        }
    }
    impl eio::Io for SimWriter {
        type Error = EioErr;
    }
    impl eio::Io for SimReader {
        type Error = EioErr;
    }
    impl eio::blocking::Write for SimWriter {
        fn write(&mut self, buf: &[u8]) -> Result<usize, EioErr> {
            // embedded-io 0.4: "Semantics are the same as std::io::Write" — Ok(0) is a legal
            // answer (its own `&mut [u8]` writer gives it when full). 0.6 forbids it.
            match self.do_write(buf, true, false) {
                IoOut::Ok(n) => Ok(n),
                _ => Err(EioErr(false)),
            }
        }
        fn flush(&mut self) -> Result<(), EioErr> {
            self.do_flush().map_err(|_| EioErr(false))
        }
    }
    impl eio::blocking::Read for SimReader {
        fn read(&mut self, buf: &mut [u8]) -> Result<usize, EioErr> {
            match self.do_read(buf, false) {
                IoOut::Ok(n) => Ok(n),
                _ => Err(EioErr(false)),
            }
        }
    }
}

pub const EIO_VERSION: &str = if cfg!(feature = "eio06") { "0.6" } else { "0.4" };
pub const EIO_BUILD: &str = if !cfg!(feature = "eio06") {
    "eio04"
} else if cfg!(debug_assertions) {
    "eio06"
} else {
    "plain"
};
