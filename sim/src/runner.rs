//! Seeded batch runner: generate → execute → check, in parallel but with results that do not
//! depend on thread timing; minimisation; replay files; known findings; evidence files.

use crate::rng::{run_seed, Fnv, Rng};
use crate::sut;
use serde::de::DeserializeOwned;
use serde::Serialize;
use serde_json::{json, Value};
use std::collections::{BTreeMap, BTreeSet};
use std::sync::atomic::{AtomicU64, Ordering};
use std::sync::Mutex;
use std::time::{Duration, Instant};

pub const NCOUNT: usize = 64;
/// crash-context marker: the child is minimising an ordinary violation of the run in the record
pub const MINIMISING: u64 = 99;
static MINIMISING_RUN: AtomicU64 = AtomicU64::new(u64::MAX);

static SMALL: std::sync::atomic::AtomicBool = std::sync::atomic::AtomicBool::new(false);
/// `--small`: generators keep workloads tiny (used by the Miri tier, ~1000x slower than native)
pub fn small() -> bool {
    SMALL.load(Ordering::Relaxed)
}
pub fn set_small(v: bool) {
    SMALL.store(v, Ordering::Relaxed)
}
pub const BLOCK: u64 = 256;
/// at most this many distinct signatures are kept (conservative undercount beyond)
pub const SIG_CAP: usize = 3_000_000;

#[derive(Clone, Copy, Debug, PartialEq, Eq)]
pub enum Tier {
    Quick,
    Thorough,
}

impl Tier {
    pub fn name(self) -> &'static str {
        match self {
            Tier::Quick => "quick",
            Tier::Thorough => "thorough",
        }
    }
}

#[derive(Clone, Debug)]
pub struct Violation<T> {
    pub property: &'static str,
    /// which sentence of the property failed — with `property`, the violation class
    pub clause: String,
    /// what was observed
    pub detail: String,
    /// stable identification of the failing input / call site (for the known-findings file)
    pub key: String,
    /// a trace narrowed to the single failing case when `exec` enumerated several
    pub narrowed: Option<T>,
}

pub struct Outcome<T> {
    pub violation: Option<Violation<T>>,
    pub evals: u64,
    pub events: u64,
    pub bytes: u64,
    pub sigs: Vec<u64>,
    pub probes: [u64; NCOUNT],
    pub faults: [u64; NCOUNT],
    pub digest: Fnv,
    pub skipped: Option<&'static str>,
    pub logging: bool,
    pub log: Vec<String>,
    /// extra scenario-specific integer coverage figures (summed)
    pub extra: [u64; 8],
}

impl<T> Outcome<T> {
    pub fn new(logging: bool) -> Self {
        Outcome {
            violation: None,
            evals: 0,
            events: 0,
            bytes: 0,
            sigs: Vec::new(),
            probes: [0; NCOUNT],
            faults: [0; NCOUNT],
            digest: Fnv::new(),
            skipped: None,
            logging,
            log: Vec::new(),
            extra: [0; 8],
        }
    }
    /// one simulator event: hashed always, rendered only when logging
    #[inline]
    pub fn ev(&mut self, code: u64, a: u64, b: u64, render: impl FnOnce() -> String) {
        self.events += 1;
        self.digest.u64(code);
        self.digest.u64(a);
        self.digest.u64(b);
        if self.logging && self.log.len() < 400 {
            self.log.push(render());
        }
    }
    #[inline]
    pub fn probe(&mut self, i: usize) {
        self.probes[i] += 1;
    }
    #[inline]
    pub fn fault(&mut self, i: usize) {
        self.faults[i] += 1;
    }
    pub fn fail(
        &mut self,
        property: &'static str,
        clause: &str,
        key: String,
        detail: String,
        narrowed: Option<T>,
    ) {
        if self.violation.is_none() {
            self.violation = Some(Violation {
                property,
                clause: clause.to_string(),
                detail,
                key,
                narrowed,
            });
        }
    }
    pub fn failed(&self) -> bool {
        self.violation.is_some()
    }
}

pub trait Scenario: Sync {
    type Trace: Serialize + DeserializeOwned + Clone + Send + Sync;
    const ID: &'static str;
    const TAG: u64;
    const LEVEL: &'static str;
    fn probe_names() -> &'static [&'static str];
    fn fault_names() -> &'static [&'static str];
    fn extra_names() -> &'static [&'static str] {
        &[]
    }
    fn default_runs(tier: Tier) -> u64;
    fn gen(rng: &mut Rng, tier: Tier, run: u64) -> Self::Trace;
    fn exec(t: &Self::Trace, out: &mut Outcome<Self::Trace>);
    fn shrink(t: &Self::Trace) -> Vec<Self::Trace>;
    /// narrow a trace to the single enumerated case identified by a crash context
    fn focus(_t: &Self::Trace, _ctx: [u64; 4]) -> Option<Self::Trace> {
        None
    }
    fn rule() -> &'static str;
    fn real_components() -> &'static [&'static str];
    fn simulated_components() -> &'static [&'static str];
    fn assumptions() -> Vec<String>;
}

#[derive(Clone, Debug)]
pub struct RunCfg {
    pub tier: Tier,
    pub seed: u64,
    pub runs: u64,
    pub threads: usize,
    pub evidence: Option<String>,
    pub replay_dir: String,
    pub known_findings: String,
    pub minimise_budget: Duration,
    pub quiet: bool,
    /// extra key/values to merge into coverage (e.g. miri results gathered by the check script)
    pub extra_coverage: Option<String>,
}

#[derive(Default)]
struct BlockStats {
    evals: u64,
    events: u64,
    bytes: u64,
    runs: u64,
    skipped: BTreeMap<&'static str, u64>,
    probes: Vec<u64>,
    faults: Vec<u64>,
    extra: Vec<u64>,
    sigs: BTreeSet<u64>,
    digest: u64,
    sample_runs: Vec<u64>,
    /// slowest run of the block: (microseconds, run index) — wall-clock, reporting only
    slowest: (u64, u64),
}

pub struct KnownFinding {
    pub property: String,
    pub clause: String,
    pub key: String,
    pub status: String,
    pub what: String,
}

/// `serde_json::from_str` without the parser's recursion limit of 128: traces may hold values
/// nested a few hundred levels deep.
pub fn json_parse<T: serde::de::DeserializeOwned>(txt: &str) -> Result<T, serde_json::Error> {
    let mut de = serde_json::Deserializer::from_str(txt);
    de.disable_recursion_limit();
    let v = T::deserialize(&mut de)?;
    de.end()?;
    Ok(v)
}

pub fn load_known(path: &str) -> Vec<KnownFinding> {
    let txt = match std::fs::read_to_string(path) {
        Ok(t) => t,
        Err(_) => return vec![],
    };
    if txt.trim().is_empty() {
        return vec![];
    }
    let v: Value = serde_json::from_str(&txt).unwrap_or_else(|e| {
        eprintln!("harness error: {path} is not valid JSON: {e}");
        std::process::exit(2)
    });
    let arr = v.get("findings").and_then(|a| a.as_array()).cloned().unwrap_or_default();
    arr.iter()
        .map(|e| KnownFinding {
            property: e["property"].as_str().unwrap_or("").to_string(),
            clause: e["clause"].as_str().unwrap_or("").to_string(),
            key: e["key"].as_str().unwrap_or("").to_string(),
            status: e["status"].as_str().unwrap_or("known").to_string(),
            what: e["what"].as_str().unwrap_or("").to_string(),
        })
        .collect()
}

fn matches_known<T>(known: &[KnownFinding], v: &Violation<T>) -> Option<usize> {
    known.iter().position(|k| {
        k.status == "known" && k.property == v.property && k.clause == v.clause && k.key == v.key
    })
}

pub fn exec_one<S: Scenario>(t: &S::Trace, logging: bool) -> Outcome<S::Trace> {
    let mut out = Outcome::new(logging);
    S::exec(t, &mut out);
    out
}

fn same_class<T>(a: &Violation<T>, b: &Violation<T>) -> bool {
    a.property == b.property && a.clause == b.clause
}

/// Greedy delta debugging over the trace; keeps a candidate iff the same violation class recurs.
pub fn minimise<S: Scenario>(
    start: S::Trace,
    viol: &Violation<S::Trace>,
    budget: Duration,
) -> (S::Trace, Violation<S::Trace>, u64) {
    let t0 = Instant::now();
    let mut cur = start;
    let mut cur_v = viol.clone();
    let mut steps = 0u64;
    // first: the narrowed single case, if exec offered one
    if let Some(n) = viol.narrowed.clone() {
        let o = exec_one::<S>(&n, false);
        if let Some(v) = o.violation {
            if same_class(&v, viol) {
                cur = n;
                cur_v = v;
            }
        }
    }
    // safety net against cyclic shrink operators: never accept a trace twice
    let mut seen: BTreeSet<String> = BTreeSet::new();
    seen.insert(trace_digest(&cur));
    'outer: loop {
        if t0.elapsed() > budget {
            break;
        }
        let cands = S::shrink(&cur);
        for c in cands {
            if t0.elapsed() > budget {
                break 'outer;
            }
            if !seen.insert(trace_digest(&c)) {
                continue;
            }
            let mr = MINIMISING_RUN.load(Ordering::SeqCst);
            if mr != u64::MAX {
                crate::supervisor::set_run(mr); // restarts the watchdog's clock for this candidate
            }
            let o = exec_one::<S>(&c, false);
            steps += 1;
            if let Some(v) = o.violation {
                if same_class(&v, &cur_v) {
                    cur = match v.narrowed.clone() {
                        Some(n) => {
                            let o2 = exec_one::<S>(&n, false);
                            match o2.violation {
                                Some(v2) if same_class(&v2, &cur_v) => n,
                                _ => c,
                            }
                        }
                        None => c,
                    };
                    cur_v = v;
                    continue 'outer;
                }
            }
        }
        break;
    }
    // final, authoritative execution of the minimised trace
    let o = exec_one::<S>(&cur, false);
    if let Some(v) = o.violation {
        cur_v = v;
    }
    cur_v.narrowed = None;
    (cur, cur_v, steps)
}

pub fn trace_digest<T: Serialize>(t: &T) -> String {
    let s = serde_json::to_string(t).unwrap();
    let mut f = Fnv::new();
    f.bytes(s.as_bytes());
    format!("{:016x}", f.finish())
}

pub fn write_replay<S: Scenario>(
    cfg: &RunCfg,
    run: u64,
    original: &S::Trace,
    minimised: &S::Trace,
    v: &Violation<S::Trace>,
    steps: u64,
) -> String {
    let o = exec_one::<S>(minimised, true);
    let path = format!("{}/{}-{}-{}.json", cfg.replay_dir, S::ID, cfg.seed, run);
    let doc = json!({
        "property": S::ID,
        "clause": v.clause,
        "detail": v.detail,
        "key": v.key,
        "seed": cfg.seed,
        "run": run,
        "tier": cfg.tier.name(),
        "build": crate::dev::EIO_BUILD,
        "trace": minimised,
        "original_trace_digest": trace_digest(original),
        "minimise_steps": steps,
        "events": o.log,
    });
    let _ = std::fs::create_dir_all(&cfg.replay_dir);
    std::fs::write(&path, serde_json::to_string_pretty(&doc).unwrap()).unwrap_or_else(|e| {
        eprintln!("harness error: cannot write {path}: {e}");
        std::process::exit(2)
    });
    path
}

/// `replay <path>`: run the explicit trace; exit 1 + VIOLATION line iff the same class recurs.
pub fn replay<S: Scenario>(path: &str, doc: &Value) -> i32 {
    let trace: S::Trace = match serde_json::from_value(doc["trace"].clone()) {
        Ok(t) => t,
        Err(e) => {
            eprintln!("harness error: bad trace in {path}: {e}");
            return 2;
        }
    };
    let clause = doc["clause"].as_str().unwrap_or("");
    let o = exec_one::<S>(&trace, true);
    for l in &o.log {
        println!("  {l}");
    }
    match o.violation {
        Some(v) if v.clause == clause || clause.is_empty() => {
            println!("replay: clause={} detail={}", v.clause, v.detail);
            println!("VIOLATION property={} replay={}", S::ID, path);
            1
        }
        Some(v) => {
            println!(
                "replay: a different clause fired: {} ({}); recorded clause was {}",
                v.clause, v.detail, clause
            );
            println!("VIOLATION property={} replay={}", S::ID, path);
            1
        }
        None => {
            println!("replay: property {} holds on this trace (no violation)", S::ID);
            0
        }
    }
}

pub fn run<S: Scenario>(cfg: &RunCfg) -> i32 {
    let t0 = Instant::now();
    sut::install_hook();
    println!(
        "pcsim property={} tier={} VERIF_SEED={} runs={} threads={}",
        S::ID,
        cfg.tier.name(),
        cfg.seed,
        cfg.runs,
        cfg.threads
    );
    let known = load_known(&cfg.known_findings);
    let nblocks = cfg.runs.div_ceil(BLOCK);
    let next = AtomicU64::new(0);
    let stop_at = AtomicU64::new(u64::MAX); // lowest violating block so far
    // (run, violation) for unknown violations; known ones are collected separately
    let viols: Mutex<BTreeMap<u64, Violation<S::Trace>>> = Mutex::new(BTreeMap::new());
    let known_hits: Mutex<BTreeMap<usize, (u64, String)>> = Mutex::new(BTreeMap::new());
    let np = S::probe_names().len();
    let nf = S::fault_names().len();
    let nx = S::extra_names().len();
    assert!(np <= NCOUNT && nf <= NCOUNT && nx <= 8);

    // Blocks are merged strictly in block order as they complete (streaming, so memory stays
    // bounded), and only up to the lowest violating block: the totals do not depend on timing.
    struct Merger {
        pending: BTreeMap<u64, BlockStats>,
        next: u64,
        tot: BlockStats,
        digest: Fnv,
        sig_capped: bool,
    }
    let merger = Mutex::new(Merger {
        pending: BTreeMap::new(),
        next: 0,
        tot: BlockStats {
            probes: vec![0; np],
            faults: vec![0; nf],
            extra: vec![0; nx],
            ..Default::default()
        },
        digest: Fnv::new(),
        sig_capped: false,
    });
    let merge_ready = |m: &mut Merger| {
        while let Some(bs) = m.pending.remove(&m.next) {
            let b = m.next;
            m.next += 1;
            if b > stop_at.load(Ordering::SeqCst) {
                continue;
            }
            let tot = &mut m.tot;
            tot.runs += bs.runs;
            tot.evals += bs.evals;
            tot.events += bs.events;
            tot.bytes += bs.bytes;
            for i in 0..np {
                tot.probes[i] += bs.probes[i];
            }
            for i in 0..nf {
                tot.faults[i] += bs.faults[i];
            }
            for i in 0..nx {
                tot.extra[i] += bs.extra[i];
            }
            for (k, v) in &bs.skipped {
                *tot.skipped.entry(k).or_insert(0) += v;
            }
            if tot.sigs.len() < SIG_CAP {
                tot.sigs.extend(bs.sigs.iter().copied());
            } else {
                m.sig_capped = true;
            }
            if bs.slowest.0 > tot.slowest.0 {
                tot.slowest = bs.slowest;
            }
            m.digest.u64(b);
            m.digest.u64(bs.digest);
            if tot.sample_runs.len() < 48 {
                tot.sample_runs.extend(bs.sample_runs.iter().copied());
                tot.sample_runs.truncate(48);
            }
        }
    };

    std::thread::scope(|sc| {
        for _ in 0..cfg.threads.max(1) {
            // (a roomy stack: values nested a few hundred levels deep recurse through serde, the
            // code under test and the harness's own visitors)
            std::thread::Builder::new().stack_size(64 << 20).spawn_scoped(sc, || {
                loop {
                    let b = next.fetch_add(1, Ordering::SeqCst);
                    if b >= nblocks || b > stop_at.load(Ordering::SeqCst) {
                        break;
                    }
                    let mut bs = BlockStats {
                        probes: vec![0; np],
                        faults: vec![0; nf],
                        extra: vec![0; nx],
                        ..Default::default()
                    };
                    let lo = b * BLOCK;
                    let hi = ((b + 1) * BLOCK).min(cfg.runs);
                    for run in lo..hi {
                        let mut rng = Rng::new(run_seed(cfg.seed, S::TAG, run));
                        let trace = S::gen(&mut rng, cfg.tier, run);
                        crate::supervisor::set_run(run);
                        if cfg!(miri) {
                            eprintln!("miri-run {run}");
                        }
                        let t_run = Instant::now();
                        let out = exec_one::<S>(&trace, false);
                        let us = t_run.elapsed().as_micros() as u64;
                        if us > bs.slowest.0 {
                            bs.slowest = (us, run);
                        }
                        crate::supervisor::set_run(u64::MAX);
                        bs.runs += 1;
                        bs.evals += out.evals;
                        bs.events += out.events;
                        bs.bytes += out.bytes;
                        for i in 0..np {
                            bs.probes[i] += out.probes[i];
                        }
                        for i in 0..nf {
                            bs.faults[i] += out.faults[i];
                        }
                        for i in 0..nx {
                            bs.extra[i] += out.extra[i];
                        }
                        if let Some(s) = out.skipped {
                            *bs.skipped.entry(s).or_insert(0) += 1;
                        }
                        if !out.sigs.is_empty() && bs.sample_runs.len() < 2 {
                            bs.sample_runs.push(run);
                        }
                        for s in &out.sigs {
                            bs.sigs.insert(*s);
                        }
                        let mut d = Fnv::new();
                        d.u64(run);
                        d.u64(out.digest.finish());
                        bs.digest = bs.digest.wrapping_add(d.finish());
                        if let Some(v) = out.violation {
                            match matches_known(&known, &v) {
                                Some(k) => {
                                    let mut kh = known_hits.lock().unwrap();
                                    let e = kh.entry(k).or_insert((run, v.detail.clone()));
                                    if run < e.0 {
                                        *e = (run, v.detail.clone());
                                    }
                                }
                                None => {
                                    viols.lock().unwrap().insert(run, v);
                                    stop_at.fetch_min(b, Ordering::SeqCst);
                                    // finish this block (so the lowest run index in it is found)
                                }
                            }
                        }
                    }
                    let mut m = merger.lock().unwrap();
                    m.pending.insert(b, bs);
                    merge_ready(&mut m);
                }
            })
            .expect("harness: cannot spawn a worker thread");
        }
    });

    let viols = viols.into_inner().unwrap();
    let known_hits = known_hits.into_inner().unwrap();
    let mut m = merger.into_inner().unwrap();
    merge_ready(&mut m);
    let Merger { tot, digest, sig_capped, .. } = m;

    for (k, (run, detail)) in &known_hits {
        println!(
            "KNOWN-FINDING: property={} {} [clause={} key={} first at run {}: {}]",
            S::ID, known[*k].what, known[*k].clause, known[*k].key, run, detail
        );
    }

    let mut exit = 0;
    let mut nviol = 0;
    let mut replay_path = None;
    if let Some((run, v)) = viols.iter().next() {
        nviol = viols.len();
        let mut rng = Rng::new(run_seed(cfg.seed, S::TAG, *run));
        let original = S::gen(&mut rng, cfg.tier, *run);
        println!(
            "violation at run {run}: clause={} detail={}; minimising…",
            v.clause, v.detail
        );
        // The un-minimised trace is on disk before minimisation starts: shrink candidates execute in
        // this process and may crash or hang where the original did not. The parent recognises
        // the marker (context 99) and reports this file if the child dies here.
        let _ = write_replay::<S>(cfg, *run, &original, &original, v, 0);
        crate::supervisor::set_ctx([MINIMISING, 0, 0, 0]);
        crate::supervisor::set_run(*run);
        MINIMISING_RUN.store(*run, Ordering::SeqCst);
        let (min, mv, steps) = minimise::<S>(original.clone(), v, cfg.minimise_budget);
        MINIMISING_RUN.store(u64::MAX, Ordering::SeqCst);
        crate::supervisor::set_run(u64::MAX);
        let path = write_replay::<S>(cfg, *run, &original, &min, &mv, steps);
        // confirm from the written file before reporting
        let doc: Value =
            json_parse(&std::fs::read_to_string(&path).unwrap()).unwrap();
        let t2: S::Trace = serde_json::from_value(doc["trace"].clone()).unwrap();
        let o2 = exec_one::<S>(&t2, false);
        if o2.violation.is_none() {
            eprintln!("harness error: minimised trace in {path} does not reproduce");
            return 2;
        }
        println!(
            "minimised in {steps} steps: clause={} detail={}",
            mv.clause, mv.detail
        );
        println!("VIOLATION property={} replay={}", S::ID, path);
        replay_path = Some(path);
        exit = 1;
    }

    // A batch in which many runs were skipped (the yardstick itself failed, a precondition could
    // not be met, …) has not exercised the property: say so loudly instead of reporting "held".
    if exit == 0 && tot.runs >= 200 {
        for (reason, n) in &tot.skipped {
            if *n * 20 > tot.runs {
                eprintln!(
                    "harness error: {n} of {} runs were skipped ({reason}): on this tree the workload no longer exercises property {}; no verdict",
                    tot.runs,
                    S::ID
                );
                exit = 2;
            }
        }
    }
    let wall = t0.elapsed().as_secs_f64();
    // samples: re-execute with logging
    let mut samples = Vec::new();
    // of the first non-trivial runs, show the four with the shortest traces (readable samples)
    let mut cands: Vec<(usize, u64)> = tot
        .sample_runs
        .iter()
        .map(|run| {
            let mut rng = Rng::new(run_seed(cfg.seed, S::TAG, *run));
            let t = S::gen(&mut rng, cfg.tier, *run);
            (serde_json::to_string(&t).map(|s| s.len()).unwrap_or(usize::MAX), *run)
        })
        .collect();
    cands.sort();
    cands.truncate(4);
    for (_, run) in &cands {
        let mut rng = Rng::new(run_seed(cfg.seed, S::TAG, *run));
        let t = S::gen(&mut rng, cfg.tier, *run);
        let o = exec_one::<S>(&t, true);
        let tj = serde_json::to_value(&t).unwrap();
        let ts = tj.to_string();
        let tj = if ts.len() > 6000 {
            json!({"truncated_trace_json_prefix": ts.chars().take(6000).collect::<String>()})
        } else {
            tj
        };
        let mut log = o.log;
        log.truncate(60);
        samples.push(json!({"run": run, "trace": tj, "events": log}));
    }
    if samples.is_empty() {
        samples.push(json!({"note": "no non-trivial run in this batch"}));
    }
    let named = |names: &[&str], vals: &[u64]| -> Value {
        let mut m = serde_json::Map::new();
        for (n, v) in names.iter().zip(vals) {
            m.insert(n.to_string(), json!(v));
        }
        Value::Object(m)
    };
    let zero_probes: Vec<&str> = S::probe_names()
        .iter()
        .zip(&tot.probes)
        .filter(|(_, v)| **v == 0)
        .map(|(n, _)| *n)
        .collect();
    for z in &zero_probes {
        println!("warning: probe never hit in this batch: {z}");
    }
    let mut coverage = json!({
        "evaluations": tot.evals,
        "distinct_nontrivial": tot.sigs.len(),
        "rule": S::rule(),
        "samples": samples,
        "exhaustive": false,
        "runs": tot.runs,
        "runs_per_hour": if wall > 0.0 { (tot.runs as f64 / wall * 3600.0) as u64 } else { 0 },
        "seeds_per_hour": if wall > 0.0 { (tot.runs as f64 / wall * 3600.0) as u64 } else { 0 },
        "sim_events": tot.events,
        "sim_bytes_moved": tot.bytes,
        "simulated_time_note": "the code under test has no clock; simulated time = event sequence numbers and bytes moved over the simulated link",
        "fault_kinds_fired": named(S::fault_names(), &tot.faults),
        "probes": named(S::probe_names(), &tot.probes),
        "probes_at_zero": zero_probes,
        "extra": named(S::extra_names(), &tot.extra),
        "skipped": tot.skipped.iter().map(|(k, v)| (k.to_string(), json!(v))).collect::<serde_json::Map<_, _>>(),
        "log_digest": format!("{:016x}", digest.finish()),
        "slowest_run": {"run": tot.slowest.1, "wall_ms": tot.slowest.0 / 1000},
        "threads": cfg.threads,
        "real_components": S::real_components(),
        "simulated_components": S::simulated_components(),
        "known_findings_hit": known_hits.len(),
        "accumulator_state_hook_compiled_in": crate::acc::HOOK,
        "distinct_nontrivial_is_capped": sig_capped,
    });
    if let Some(p) = &cfg.extra_coverage {
        if let Ok(txt) = std::fs::read_to_string(p) {
            if let Ok(Value::Object(m)) = serde_json::from_str::<Value>(&txt) {
                for (k, v) in m {
                    coverage[k] = v;
                }
            }
        }
    }
    let ev = json!({
        "property_id": S::ID,
        "tier": cfg.tier.name(),
        "seed": cfg.seed,
        "level": S::LEVEL,
        "coverage": coverage,
        "assumptions": S::assumptions(),
        "wall_s": (wall * 1000.0).round() / 1000.0,
        "violations": nviol,
        "replay": replay_path,
    });
    if let Some(p) = &cfg.evidence {
        if let Some(dir) = std::path::Path::new(p).parent() {
            let _ = std::fs::create_dir_all(dir);
        }
        // a verdict exists by now: evidence I/O must never change the exit code
        let tmp = format!("{p}.{}.tmp", std::process::id());
        let ok = std::fs::write(&tmp, serde_json::to_string_pretty(&ev).unwrap_or_default()).is_ok()
            && std::fs::rename(&tmp, p).is_ok();
        if !ok {
            eprintln!("warning: could not write the evidence file {p}");
            let _ = std::fs::remove_file(&tmp);
        }
    }
    println!(
        "summary property={} runs={} evaluations={} distinct_nontrivial={} events={} bytes={} log_digest={:016x} wall_s={:.2} violations={}",
        S::ID,
        tot.runs,
        tot.evals,
        tot.sigs.len(),
        tot.events,
        tot.bytes,
        digest.finish(),
        wall,
        nviol
    );
    println!("slowest run: {} ({} ms wall)", tot.slowest.1, tot.slowest.0 / 1000);
    if !cfg.quiet {
        println!("faults fired: {}", named(S::fault_names(), &tot.faults));
        println!("probes: {}", named(S::probe_names(), &tot.probes));
    }
    exit
}
