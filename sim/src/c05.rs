//! C05: bounded-buffer serialisation. The fault is "the sink runs out at byte c": every capacity
//! from 0 to L+2 is enumerated for every sampled value, framing and fixed-storage kind.

use crate::arena::{self, Place};
use crate::rng::{Fnv, Rng};
use crate::runner::{Outcome, Scenario, Tier};
use crate::shape::{self, GenCfg, Msg, Shape};
use crate::sut;
use crc::{Crc, CRC_16_IBM_SDLC, CRC_32_ISCSI, CRC_64_ECMA_182, CRC_82_DARC, CRC_8_SMBUS};
use postcard::ser_flavors::crc as sercrc;
use serde::{Deserialize, Serialize};
use std::collections::VecDeque;

pub static CRC8: Crc<u8> = Crc::<u8>::new(&CRC_8_SMBUS);
pub static CRC16: Crc<u16> = Crc::<u16>::new(&CRC_16_IBM_SDLC);
pub static CRC32: Crc<u32> = Crc::<u32>::new(&CRC_32_ISCSI);
pub static CRC64: Crc<u64> = Crc::<u64>::new(&CRC_64_ECMA_182);
pub static CRC128: Crc<u128> = Crc::<u128>::new(&CRC_82_DARC);

#[derive(Clone, Copy, Debug, PartialEq, Eq, Serialize, Deserialize)]
pub enum Framing {
    Plain,
    Cobs,
    Crc8,
    Crc16,
    Crc32,
    Crc64,
    Crc128,
    /// a user-built stack: CRC-32 over COBS over the storage (`CrcModifier<Cobs<_>>`)
    Crc32OverCobs,
}

pub const FRAMINGS: [Framing; 8] = [
    Framing::Plain,
    Framing::Cobs,
    Framing::Crc8,
    Framing::Crc16,
    Framing::Crc32,
    Framing::Crc64,
    Framing::Crc128,
    Framing::Crc32OverCobs,
];

impl Framing {
    fn crc_bytes(self) -> usize {
        match self {
            Framing::Crc8 => 1,
            Framing::Crc16 => 2,
            Framing::Crc32 => 4,
            Framing::Crc64 => 8,
            Framing::Crc128 => 16,
            _ => 0,
        }
    }
}

#[derive(Clone, Copy, Debug, PartialEq, Eq, Serialize, Deserialize)]
pub enum Storage {
    SliceEndGuard,
    SliceStartGuard,
    HVec,
}

#[derive(Clone, Debug, Serialize, Deserialize)]
pub struct Focus {
    pub framing: Framing,
    pub storage: Storage,
    pub cap: usize,
}

#[derive(Clone, Debug, Serialize, Deserialize)]
pub struct C05Trace {
    pub msg: Msg,
    /// None = every framing x storage x capacity 0..=L+2; Some = that single case
    pub focus: Option<Focus>,
    /// additionally measure a value of `blocks` byte strings of `block_len` bytes plus one of
    /// `last_len` bytes (all borrowing one shared block, so gigabytes cost nothing) with the size
    /// counter; the expected length is arithmetic
    #[serde(default)]
    pub huge: Option<Huge>,
    /// for really long outputs (kilobytes): only the capacities 0, 1, L-1, L, L+1, L+2
    #[serde(default)]
    pub edge_caps_only: bool,
    /// additionally every capacity from L+3 to 3L+8 (otherwise a fixed set of roomy capacities)
    #[serde(default)]
    pub roomy_sweep: bool,
}

/// Capacities well above the output length: code guarded by "there is plenty of room" (wide
/// stores, staging areas in the unused part of the buffer) runs only there, and must leave the
/// rest of the buffer untouched just the same. `pl` is the length of the plain encoding.
fn roomy_caps(l: usize, pl: usize, sweep: bool, edge_only: bool) -> Vec<usize> {
    let mut v: Vec<usize> = Vec::new();
    if crate::runner::small() || edge_only {
        v.extend([l + 8, l + 16, l + 17, l + 64, 2 * l + 3]);
    } else {
        v.extend(l + 3..=l + 24);
        v.extend([l + 31, l + 32, l + 33, l + 64, l + 100, l + 255, l + 256, 2 * l, 2 * l + 1, 2 * l + 3, 3 * l + 1, 4 * l, 2 * pl, 2 * pl + 1, 1024, 4096]);
        if sweep {
            v.extend(l + 25..=3 * l + 8);
        }
    }
    v.retain(|c| *c > l + 2 && *c <= arena::RW);
    v.sort_unstable();
    v.dedup();
    v
}

#[derive(Clone, Debug, Serialize, Deserialize)]
pub struct Huge {
    pub blocks: usize,
    pub block_len: usize,
    pub last_len: usize,
}

static BLOCK: [u8; 1 << 20] = [0x5A; 1 << 20];

/// A tuple of byte strings that all borrow the same block.
struct Blocks<'a>(&'a Huge);
struct BytesOf<'a>(&'a [u8]);
impl Serialize for BytesOf<'_> {
    fn serialize<S: serde::Serializer>(&self, s: S) -> Result<S::Ok, S::Error> {
        s.serialize_bytes(self.0)
    }
}
impl Serialize for Blocks<'_> {
    fn serialize<S: serde::Serializer>(&self, s: S) -> Result<S::Ok, S::Error> {
        use serde::ser::SerializeTuple;
        let h = self.0;
        let mut t = s.serialize_tuple(h.blocks + 1)?;
        for _ in 0..h.blocks {
            t.serialize_element(&BytesOf(&BLOCK[..h.block_len.min(BLOCK.len())]))?;
        }
        t.serialize_element(&BytesOf(&BLOCK[..h.last_len.min(BLOCK.len())]))?;
        t.end()
    }
}
fn varint_len(mut v: usize) -> usize {
    let mut n = 1;
    while v >= 0x80 {
        v >>= 7;
        n += 1;
    }
    n
}

type PcResult<T> = Result<T, postcard::Error>;

/// unbounded serialisation — the statement's yardstick
fn unbounded(m: &Msg, f: Framing) -> Result<PcResult<Vec<u8>>, String> {
    let v = m.ser();
    sut::call(|| match f {
        Framing::Plain => postcard::to_allocvec(&v),
        Framing::Cobs => postcard::to_allocvec_cobs(&v),
        Framing::Crc8 => sercrc::to_allocvec_u8(&v, CRC8.digest()),
        Framing::Crc16 => sercrc::to_allocvec_u16(&v, CRC16.digest()),
        Framing::Crc32 => sercrc::to_allocvec_u32(&v, CRC32.digest()),
        Framing::Crc64 => sercrc::to_allocvec_u64(&v, CRC64.digest()),
        Framing::Crc128 => sercrc::to_allocvec_u128(&v, CRC128.digest()),
        Framing::Crc32OverCobs => {
            use postcard::ser_flavors::{AllocVec, Cobs};
            Cobs::try_new(AllocVec::new()).and_then(|c| {
                postcard::serialize_with_flavor(&v, sercrc::CrcModifier::new(c, CRC32.digest()))
            })
        }
    })
}

/// (offset of returned slice relative to buf start, returned bytes)
fn to_slice(m: &Msg, f: Framing, buf: &mut [u8]) -> Result<PcResult<(isize, Vec<u8>)>, String> {
    let v = m.ser();
    let base = buf.as_ptr() as isize;
    sut::call(move || {
        let r = match f {
            Framing::Plain => postcard::to_slice(&v, buf),
            Framing::Cobs => postcard::to_slice_cobs(&v, buf),
            Framing::Crc8 => sercrc::to_slice_u8(&v, buf, CRC8.digest()),
            Framing::Crc16 => sercrc::to_slice_u16(&v, buf, CRC16.digest()),
            // the crate-root convenience wrapper (a delegation to ser_flavors::crc::to_slice_u32)
            Framing::Crc32 => postcard::to_slice_crc32(&v, buf, CRC32.digest()),
            Framing::Crc64 => sercrc::to_slice_u64(&v, buf, CRC64.digest()),
            Framing::Crc128 => sercrc::to_slice_u128(&v, buf, CRC128.digest()),
            Framing::Crc32OverCobs => {
                use postcard::ser_flavors::{Cobs, Slice};
                Cobs::try_new(Slice::new(buf)).and_then(|c| {
                    postcard::serialize_with_flavor(&v, sercrc::CrcModifier::new(c, CRC32.digest()))
                })
            }
        };
        r.map(|s| (s.as_ptr() as isize - base, s.to_vec()))
    })
}

pub const HCAPS: [usize; 37] = [
    0, 1, 2, 3, 4, 5, 6, 7, 8, 9, 10, 11, 12, 13, 14, 15, 16, 17, 18, 19, 20, 30, 31, 32, 33, 34,
    126, 127, 128, 129, 130, 253, 254, 255, 256, 257, 258,
];

pub const HCAPS_CRC: [usize; 14] = [0, 1, 2, 3, 4, 8, 9, 10, 16, 17, 18, 19, 20, 32];

fn to_hvec(m: &Msg, f: Framing, cap: usize) -> Option<Result<PcResult<Vec<u8>>, String>> {
    let v = m.ser();
    macro_rules! go {
        ($($b:literal),*) => {
            match cap {
                $($b => Some(sut::call(|| match f {
                    Framing::Plain => postcard::to_vec::<_, $b>(&v).map(|x| x.to_vec()),
                    Framing::Cobs => postcard::to_vec_cobs::<_, $b>(&v).map(|x| x.to_vec()),
                    Framing::Crc32 => postcard::to_vec_crc32::<_, $b>(&v, CRC32.digest()).map(|x| x.to_vec()),
                    _ => unreachable!(),
                })),)*
                _ => None,
            }
        };
    }
    macro_rules! go_crc {
        ($($b:literal),*) => {
            match cap {
                $($b => Some(sut::call(|| match f {
                    Framing::Crc8 => sercrc::to_vec_u8::<_, $b>(&v, CRC8.digest()).map(|x| x.to_vec()),
                    Framing::Crc16 => sercrc::to_vec_u16::<_, $b>(&v, CRC16.digest()).map(|x| x.to_vec()),
                    Framing::Crc64 => sercrc::to_vec_u64::<_, $b>(&v, CRC64.digest()).map(|x| x.to_vec()),
                    Framing::Crc128 => sercrc::to_vec_u128::<_, $b>(&v, CRC128.digest()).map(|x| x.to_vec()),
                    _ => unreachable!(),
                })),)*
                _ => None,
            }
        };
    }
    if matches!(f, Framing::Crc8 | Framing::Crc16 | Framing::Crc64 | Framing::Crc128) {
        // the other checksum widths over heapless storage: a reduced capacity set
        return go_crc!(0, 1, 2, 3, 4, 8, 9, 10, 16, 17, 18, 19, 20, 32);
    }
    go!(
        0, 1, 2, 3, 4, 5, 6, 7, 8, 9, 10, 11, 12, 13, 14, 15, 16, 17, 18, 19, 20, 30, 31, 32, 33,
        34, 126, 127, 128, 129, 130, 253, 254, 255, 256, 257, 258
    )
}

/// a sink that only implements Extend<u8> and records how it was driven
#[derive(Default)]
struct RecSink {
    bytes: Vec<u8>,
    calls: usize,
}
impl Extend<u8> for RecSink {
    fn extend<I: IntoIterator<Item = u8>>(&mut self, it: I) {
        self.calls += 1;
        self.bytes.extend(it);
    }
}

mod p {
    pub const FAIL_LAST_BYTE: usize = 0;
    pub const CAP_ZERO: usize = 1;
    pub const COBS_SENTINEL_FAILS: usize = 2;
    pub const COBS_PLACEHOLDER_FAILS: usize = 3;
    pub const CRC_TAIL_FAILS: usize = 4;
    pub const FAIL_INSIDE_LEAF: usize = 5;
    pub const COBS_FF: usize = 6;
    pub const START_GUARD: usize = 7;
    pub const END_GUARD: usize = 8;
    pub const EXACT_FIT: usize = 9;
    pub const HVEC_EXACT_FIT: usize = 10;
    pub const HVEC_ONE_SHORT: usize = 11;
    pub const DISPLAY_FAIL: usize = 12;
    pub const DISPLAY_COLLECTSTR_ERR: usize = 13;
    pub const SLACK_UNTOUCHED: usize = 14;
    pub const COBS_RUN_EXACTLY_254: usize = 15;
    pub const HUGE_SIZE: usize = 16;
    pub const HUGE_SIZE_OVER_4G: usize = 17;
    pub const ROOMY_UNTOUCHED: usize = 18;
    pub const NAMES: [&str; 19] = [
        "failure_on_the_very_last_byte",
        "capacity_zero",
        "cobs_sentinel_push_fails_in_finalize",
        "cobs_placeholder_push_fails",
        "crc_tail_fails_in_finalize",
        "failure_inside_a_multi_byte_leaf",
        "plain_encoding_has_a_full_cobs_block_of_254_non_zero_bytes",
        "slice_flush_against_leading_guard",
        "slice_flush_against_trailing_guard",
        "capacity_exactly_output_length",
        "heapless_capacity_exactly_output_length",
        "heapless_capacity_one_short",
        "collect_str_value_with_too_small_sink",
        "collect_str_value_reported_CollectStrError",
        "success_with_slack_and_slack_untouched",
        "longest_non_zero_run_of_plain_encoding_is_exactly_254",
        "size_counter_on_a_multi_megabyte_value",
        "size_counter_on_a_value_longer_than_4_GiB",
        "success_in_a_roomy_slice_rest_untouched",
    ];
}

mod f {
    pub const SLICE_FULL: usize = 0;
    pub const HVEC_FULL: usize = 1;
    pub const NAMES: [&str; 2] = [
        "slice_ran_out_before_output_complete",
        "heapless_vec_ran_out_before_output_complete",
    ];
}

const X_SERIALISATIONS: usize = 0;
const X_VALUES: usize = 1;
const X_CAPS_ENUMERATED: usize = 2;

pub struct C05;

fn hexs(b: &[u8]) -> String {
    let mut s = String::new();
    for (i, x) in b.iter().enumerate() {
        if i >= 32 {
            s.push_str(&format!("…(+{})", b.len() - i));
            break;
        }
        s.push_str(&format!("{x:02x}"));
    }
    s
}

fn exec_c05(t: &C05Trace, out: &mut Outcome<C05Trace>) {
    let m = &t.msg;
    let display = m.shape.has_display();
    let kinds = m.shape.kinds();
    let leaf = !matches!(
        m.shape,
        Shape::Option(_)
            | Shape::Newtype(_)
            | Shape::Seq(_)
            | Shape::Tuple(_)
            | Shape::TupleStruct(_)
            | Shape::Map(_, _)
            | Shape::Struct(_)
            | Shape::Enum(_)
            | Shape::Unit
            | Shape::UnitStruct
    );
    macro_rules! fail {
        ($clause:expr, $fr:expr, $st:expr, $cap:expr, $($arg:tt)*) => {{
            let detail = format!($($arg)*);
            let mut n = t.clone();
            n.focus = Some(Focus { framing: $fr, storage: $st, cap: $cap });
            out.fail("C05", $clause, format!("{:?}/{:?} {}", $fr, $st, $clause), detail, Some(n));
            return;
        }};
    }
    out.extra[X_VALUES] += 1;
    if let Some(h) = &t.huge {
        let bl = h.block_len.min(BLOCK.len());
        let ll = h.last_len.min(BLOCK.len());
        // length of one block as the real (unbounded) serialiser produces it — relative, like
        // every other yardstick of this scenario; the arithmetic is only the multiplication
        let one = |n: usize| -> Option<u128> {
            match sut::call(|| postcard::to_allocvec(&BytesOf(&BLOCK[..n]))) {
                Ok(Ok(v)) => Some(v.len() as u128),
                _ => None,
            }
        };
        let (per, last) = match (one(bl), one(ll)) {
            (Some(a), Some(b)) => (a, b),
            _ => {
                out.skipped = Some("workload_unencodable");
                return;
            }
        };
        let _ = varint_len(0);
        let expect = h.blocks as u128 * per + last;
        let r = sut::call(|| postcard::experimental::serialized_size(&Blocks(h)));
        out.evals += 1;
        out.probe(p::HUGE_SIZE);
        if expect > u32::MAX as u128 {
            out.probe(p::HUGE_SIZE_OVER_4G);
        }
        let ok = matches!(&r, Ok(Ok(n)) if *n as u128 == expect);
        if !ok {
            let mut n = t.clone();
            n.focus = Some(Focus { framing: Framing::Plain, storage: Storage::SliceEndGuard, cap: usize::MAX });
            out.fail(
                "C05",
                "size-counter",
                "Size size-counter".into(),
                format!(
                    "serialized_size of {} byte strings of {} bytes plus one of {} bytes reported {:?}; the output length is {}",
                    h.blocks, bl, ll, r, expect
                ),
                Some(n),
            );
            return;
        }
    }
    if matches!(&t.focus, Some(f) if f.cap == usize::MAX) {
        return;
    }
    // plain length for the size counter
    let plain = match unbounded(m, Framing::Plain) {
        Ok(Ok(u)) => u,
        _ => {
            out.skipped = Some("workload_unencodable");
            return;
        }
    };
    if t.focus.is_none() {
        // size counter: exactly the output length (it has no storage to write to)
        let v = m.ser();
        match sut::call(|| postcard::experimental::serialized_size(&v)) {
            Ok(Ok(n)) if n == plain.len() => {}
            other => {
                fail!(
                    "size-counter",
                    Framing::Plain,
                    Storage::SliceEndGuard,
                    0,
                    "serialized_size reported {:?}, unbounded serialisation produces {} bytes",
                    other,
                    plain.len()
                );
            }
        }
        out.evals += 1;
        // growable / Extend sinks receive exactly the plain encoding, in order
        let v = m.ser();
        let pre = vec![0xEEu8, 0x11];
        let r = sut::call(|| {
            let a = postcard::to_extend(&v, pre.clone())?;
            let b: VecDeque<u8> = postcard::to_extend(&v, VecDeque::new())?;
            let c = postcard::to_extend(&v, RecSink::default())?;
            let d = postcard::to_stdvec(&v)?;
            let e = postcard::to_stdvec_cobs(&v)? == postcard::to_allocvec_cobs(&v)?;
            let f = postcard::to_stdvec_crc32(&v, CRC32.digest())? == postcard::to_allocvec_crc32(&v, CRC32.digest())?;
            Ok::<_, postcard::Error>((a, b.into_iter().collect::<Vec<u8>>(), c.bytes, d, e && f))
        });
        out.evals += 8;
        match r {
            Ok(Ok((a, b, c, d, same))) => {
                let mut exp = pre.clone();
                exp.extend_from_slice(&plain);
                if a != exp || b != plain || c != plain || d != plain || !same {
                    fail!(
                        "growable-sinks",
                        Framing::Plain,
                        Storage::SliceEndGuard,
                        0,
                        "an Extend / Vec sink did not receive exactly the unbounded encoding [{}]",
                        hexs(&plain)
                    );
                }
            }
            other => {
                fail!(
                    "growable-sinks",
                    Framing::Plain,
                    Storage::SliceEndGuard,
                    0,
                    "serialising into a growable sink failed: {:?}",
                    other.map(|r| r.map(|_| ()))
                );
            }
        }
    }
    for fr in FRAMINGS {
        if let Some(fc) = &t.focus {
            if fc.framing != fr {
                continue;
            }
        }
        let u = match unbounded(m, fr) {
            Ok(Ok(u)) => u,
            _ => {
                out.skipped = Some("workload_unencodable");
                continue;
            }
        };
        let l = u.len();
        if matches!(fr, Framing::Cobs | Framing::Crc32OverCobs) && fr == Framing::Cobs {
            // a full COBS block: 254 non-zero bytes in a row in the plain encoding
            let mut run = 0usize;
            let mut maxrun = 0usize;
            for b in &plain {
                run = if *b == 0 { 0 } else { run + 1 };
                maxrun = maxrun.max(run);
            }
            if maxrun >= 254 {
                out.probe(p::COBS_FF);
            }
            if maxrun == 254 {
                out.probe(p::COBS_RUN_EXACTLY_254);
            }
        }
        // ---- slices, both guard placements, every capacity 0..=L+2
        for (st, place) in [(Storage::SliceEndGuard, Place::End), (Storage::SliceStartGuard, Place::Start)] {
            let caps: Vec<usize> = match &t.focus {
                Some(fc) if fc.storage == st => vec![fc.cap],
                Some(_) => vec![],
                None if t.edge_caps_only => {
                    let mut v = vec![0, 1, l.saturating_sub(1), l, l + 1, l + 2];
                    v.sort_unstable();
                    v.dedup();
                    v.extend(roomy_caps(l, plain.len(), false, true));
                    v
                }
                None => {
                    let mut v: Vec<usize> = (0..=l + 2).collect();
                    v.extend(roomy_caps(l, plain.len(), t.roomy_sweep, false));
                    v
                }
            };
            for c in caps {
                out.extra[X_SERIALISATIONS] += 1;
                out.extra[X_CAPS_ENUMERATED] += 1;
                out.evals += 1;
                crate::supervisor::set_ctx([1, fr as u64, st as u64, c as u64]);
                let (r, stray) = arena::with_arena(|a| {
                    a.with_buf(
                        c,
                        place,
                        |buf| to_slice(m, fr, buf),
                        |r| match r {
                            Ok(Ok((_, bytes))) => Some(bytes.len()),
                            _ => None,
                        },
                    )
                });
                out.ev(fr as u64 * 4 + st as u64, c as u64, matches!(r, Ok(Ok(_))) as u64, || {
                    format!("to_slice {:?} {:?} cap={} (L={}) -> {}", fr, st, c, l, match &r {
                        Ok(Ok((o, b))) => format!("Ok(offset {o}, {} bytes)", b.len()),
                        Ok(Err(e)) => format!("Err({e:?})"),
                        Err(p) => format!("PANIC {p}"),
                    })
                });
                match place {
                    Place::End => out.probe(p::END_GUARD),
                    Place::Start => out.probe(p::START_GUARD),
                }
                if let Some(s) = stray {
                    if s.rel < 0 || s.rel as usize >= c {
                        fail!(
                            "out-of-bounds-write",
                            fr,
                            st,
                            c,
                            "a byte at offset {} relative to a buffer of {} bytes was overwritten with {:#04x} (output length {})",
                            s.rel,
                            c,
                            s.found,
                            l
                        );
                    } else {
                        fail!(
                            "rest-untouched",
                            fr,
                            st,
                            c,
                            "byte {} of the buffer, after the {} returned bytes, was overwritten with {:#04x}",
                            s.rel,
                            l,
                            s.found
                        );
                    }
                }
                let r = match r {
                    Ok(r) => r,
                    Err(pmsg) => {
                        fail!("no-panic", fr, st, c, "serialising into a {c}-byte slice (output length {l}) panicked: {pmsg}");
                    }
                };
                if c >= l {
                    match r {
                        Ok((off, bytes)) => {
                            // (an empty output is at the front wherever its pointer is; and never
                            // print a raw address difference: only in-buffer offsets are meaningful)
                            if off != 0 && !bytes.is_empty() {
                                let shown = if off > 0 && (off as usize) <= c { format!("offset {off}") } else { "an address outside the buffer".to_string() };
                                fail!("front-of-buffer", fr, st, c, "returned slice starts at {shown}, not at the front of the buffer");
                            }
                            if bytes != u {
                                fail!(
                                    "same-bytes",
                                    fr,
                                    st,
                                    c,
                                    "capacity {c} >= output length {l}: returned [{}], unbounded serialisation produces [{}]",
                                    hexs(&bytes),
                                    hexs(&u)
                                );
                            }
                            if c == l {
                                out.probe(p::EXACT_FIT);
                            } else {
                                out.probe(p::SLACK_UNTOUCHED);
                            }
                            if c > l + 2 {
                                out.probe(p::ROOMY_UNTOUCHED);
                            }
                        }
                        Err(e) => {
                            fail!(
                                "threshold",
                                fr,
                                st,
                                c,
                                "capacity {c} >= output length {l} but serialisation failed with {e:?}"
                            );
                        }
                    }
                } else {
                    out.fault(f::SLICE_FULL);
                    if c == 0 {
                        out.probe(p::CAP_ZERO);
                        if matches!(fr, Framing::Cobs | Framing::Crc32OverCobs) {
                            out.probe(p::COBS_PLACEHOLDER_FAILS);
                        }
                    }
                    if c + 1 == l {
                        out.probe(p::FAIL_LAST_BYTE);
                        if matches!(fr, Framing::Cobs | Framing::Crc32OverCobs) {
                            out.probe(p::COBS_SENTINEL_FAILS);
                        }
                    }
                    if fr.crc_bytes() > 0 && c + fr.crc_bytes() >= l {
                        out.probe(p::CRC_TAIL_FAILS);
                    }
                    if leaf && fr == Framing::Plain && c > 0 && l >= 2 {
                        out.probe(p::FAIL_INSIDE_LEAF);
                    }
                    match r {
                        Ok((_, bytes)) => {
                            fail!(
                                "threshold",
                                fr,
                                st,
                                c,
                                "capacity {c} < output length {l} but serialisation succeeded, returning {} bytes [{}]",
                                bytes.len(),
                                hexs(&bytes)
                            );
                        }
                        Err(postcard::Error::SerializeBufferFull) => {}
                        Err(e) => {
                            if display {
                                out.probe(p::DISPLAY_COLLECTSTR_ERR);
                            } else {
                                fail!(
                                    "error-kind",
                                    fr,
                                    st,
                                    c,
                                    "capacity {c} < output length {l}: an ordinary value must fail with SerializeBufferFull, got {e:?}"
                                );
                            }
                        }
                    }
                    if display {
                        out.probe(p::DISPLAY_FAIL);
                    }
                }
            }
        }
        // ---- heapless vectors: instantiated capacities up to L+2 (and the next one above)
        {
            let hcaps: &[usize] = if matches!(fr, Framing::Plain | Framing::Cobs | Framing::Crc32) {
                &HCAPS
            } else if fr == Framing::Crc32OverCobs {
                &[]
            } else {
                &HCAPS_CRC
            };
            let caps: Vec<usize> = match &t.focus {
                Some(fc) if fc.storage == Storage::HVec => vec![fc.cap],
                Some(_) => vec![],
                None => {
                    let mut v: Vec<usize> = hcaps.iter().copied().filter(|b| *b <= l + 2).collect();
                    if let Some(nx) = hcaps.iter().copied().find(|b| *b > l + 2) {
                        v.push(nx);
                    }
                    v
                }
            };
            for b in caps {
                let r = match to_hvec(m, fr, b) {
                    Some(r) => r,
                    None => continue,
                };
                out.extra[X_SERIALISATIONS] += 1;
                out.evals += 1;
                out.ev(100 + fr as u64, b as u64, matches!(r, Ok(Ok(_))) as u64, || {
                    format!("to_vec {:?} B={} (L={}) -> {}", fr, b, l, match &r {
                        Ok(Ok(x)) => format!("Ok({} bytes)", x.len()),
                        Ok(Err(e)) => format!("Err({e:?})"),
                        Err(p) => format!("PANIC {p}"),
                    })
                });
                let st = Storage::HVec;
                let r = match r {
                    Ok(r) => r,
                    Err(pmsg) => {
                        fail!("no-panic", fr, st, b, "serialising into a heapless::Vec<u8, {b}> (output length {l}) panicked: {pmsg}");
                    }
                };
                if b >= l {
                    if b == l {
                        out.probe(p::HVEC_EXACT_FIT);
                    }
                    match r {
                        Ok(bytes) if bytes == u => {}
                        Ok(bytes) => {
                            fail!("same-bytes", fr, st, b, "heapless capacity {b} >= {l}: got [{}], unbounded gives [{}]", hexs(&bytes), hexs(&u));
                        }
                        Err(e) => {
                            fail!("threshold", fr, st, b, "heapless capacity {b} >= output length {l} but serialisation failed with {e:?}");
                        }
                    }
                } else {
                    out.fault(f::HVEC_FULL);
                    if b + 1 == l {
                        out.probe(p::HVEC_ONE_SHORT);
                    }
                    match r {
                        Ok(bytes) => {
                            fail!("threshold", fr, st, b, "heapless capacity {b} < output length {l} but serialisation succeeded with {} bytes", bytes.len());
                        }
                        Err(postcard::Error::SerializeBufferFull) => {}
                        Err(e) => {
                            if !display {
                                fail!("error-kind", fr, st, b, "heapless capacity {b} < output length {l}: expected SerializeBufferFull, got {e:?}");
                            }
                        }
                    }
                }
            }
        }
        if l >= 2 && t.focus.is_none() {
            let mut s = Fnv::new();
            s.u64(kinds as u64);
            s.usize(l);
            s.byte(fr as u8);
            out.sigs.push(s.finish());
        }
    }
    // whole arena still intact?
    if let Some(off) = arena::with_arena(|a| a.verify_all()) {
        fail!(
            "out-of-bounds-write",
            Framing::Plain,
            Storage::SliceEndGuard,
            0,
            "arena byte at offset {off} (far from any buffer handed out) was overwritten"
        );
    }
    out.bytes += plain.len() as u64;
}

/// A message whose plain encoding has non-zero runs of length 253..=255 (or two blocks), ending
/// at the end of the message or at a zero byte: the places where the COBS encoder closes a full
/// block and opens the next one.
fn cobs_stress_msg(rng: &mut Rng) -> Msg {
    use crate::shape::Val;
    let target = *rng.pick(&[253usize, 254, 254, 254, 255, 508, 509]);
    let nz = |rng: &mut Rng, n: usize| -> Vec<u8> { (0..n).map(|_| 1 + rng.below(255) as u8).collect() };
    // the 2-byte length prefix of a 128..16383-byte payload is part of the run
    let mut data = nz(rng, target - 2);
    match rng.below(4) {
        0 => {}
        1 => data.push(0),
        2 => {
            data.push(0);
            let k = rng.range(1, 6);
            data.extend(nz(rng, k));
        }
        _ => {
            let k = rng.range(1, 3);
            data.extend(nz(rng, k));
        }
    }
    match rng.below(3) {
        0 => Msg { shape: Shape::Bytes, val: Val::Bytes(data) },
        1 => Msg {
            shape: Shape::Str,
            val: Val::Str(data.iter().map(|b| if *b == 0 { '\0' } else { (b'a' + b % 26) as char }).collect()),
        },
        _ => Msg {
            shape: Shape::Tuple(vec![Shape::Bytes, Shape::U8]),
            val: Val::Seq(vec![Val::Bytes(data), Val::Uint(rng.below(3) as u128)]),
        },
    }
}

impl Scenario for C05 {
    type Trace = C05Trace;
    const ID: &'static str = "C05";
    const TAG: u64 = 0xC05;
    const LEVEL: &'static str = "fault_enumeration";
    fn probe_names() -> &'static [&'static str] {
        &p::NAMES
    }
    fn fault_names() -> &'static [&'static str] {
        &f::NAMES
    }
    fn extra_names() -> &'static [&'static str] {
        &["bounded_serialisations", "values", "slice_capacities_enumerated"]
    }
    fn default_runs(tier: Tier) -> u64 {
        match tier {
            Tier::Quick => 100_000,
            Tier::Thorough => 4_000_000,
        }
    }
    fn gen(rng: &mut Rng, _tier: Tier, _run: u64) -> C05Trace {
        // output length: mostly small (every capacity is enumerated, cost is quadratic in L),
        // sometimes up to ~800 so that several 254-byte COBS blocks occur
        let budget = match rng.below(20) {
            // under Miri (interpreter, ~1000x slower) only short outputs; capacities still complete
            _ if crate::runner::small() => *rng.pick(&[3usize, 8, 20]),
            0 => 800,
            1 => 520,
            2 | 3 => 270,
            4..=7 => 130,
            8..=12 => 40,
            _ => 12,
        };
        let cfg = GenCfg::swarm(rng, budget);
        let msg = if rng.chance(1, 12) && !crate::runner::small() {
            cobs_stress_msg(rng)
        } else if rng.chance(1, 6) {
            // aim the output length at the instantiated heapless capacities
            let target = if crate::runner::small() { rng.range(1, 20) } else { *rng.pick(&super::c05::HCAPS[1..]) };
            Msg::gen_fitting(rng, &cfg, target)
        } else {
            Msg::gen_fitting(rng, &cfg, budget)
        };
        let roomy_sweep = budget <= 270 && rng.chance(1, 8) && !crate::runner::small();
        // now and then: the size counter on a value of several gigabytes (around 2^31, 2^32, 2^33)
        let huge = if rng.chance(1, 400) && !crate::runner::small() {
            let target: u128 = match rng.below(6) {
                0 => 1u128 << 31,
                1 | 2 | 3 => 1u128 << 32,
                4 => 1u128 << 33,
                _ => 3u128 << 30,
            };
            let block_len = *rng.pick(&[1usize << 20, (1 << 20) - 1, 65536, 1000003 % (1 << 20)]);
            let per = (varint_len(block_len) + block_len) as u128;
            let blocks = (target / per) as usize + rng.range(0, 2);
            Some(Huge { blocks, block_len, last_len: rng.range(0, 300) })
        } else {
            None
        };
        // now and then one really long output (4 KiB .. 70 kB): lengths past 12 and 16 bits
        if rng.chance(1, 300) && !crate::runner::small() {
            use crate::shape::Val;
            let n = *rng.pick(&[4095usize, 4096, 4097, 16383, 16384, 65535, 65536, 70000]);
            let data: Vec<u8> = (0..n).map(|i| if i % 251 == 250 { 0 } else { 1 + (i % 254) as u8 }).collect();
            let msg = match rng.below(3) {
                0 => Msg { shape: Shape::Bytes, val: Val::Bytes(data) },
                1 => Msg { shape: Shape::Str, val: Val::Str(data.iter().map(|b| (b'a' + b % 26) as char).collect()) },
                _ => Msg {
                    shape: Shape::Tuple(vec![Shape::U8, Shape::Bytes, Shape::U32]),
                    val: Val::Seq(vec![Val::Uint(1), Val::Bytes(data), Val::Uint(70000)]),
                },
            };
            return C05Trace { msg, focus: None, huge: None, edge_caps_only: true, roomy_sweep: false };
        }
        C05Trace { msg, focus: None, huge, edge_caps_only: false, roomy_sweep }
    }
    fn exec(t: &C05Trace, out: &mut Outcome<C05Trace>) {
        exec_c05(t, out)
    }
    fn shrink(t: &C05Trace) -> Vec<C05Trace> {
        let mut v = Vec::new();
        if let Some(h) = &t.huge {
            v.push(C05Trace { huge: None, ..t.clone() });
            if h.last_len > 0 {
                v.push(C05Trace { huge: Some(Huge { last_len: 0, ..h.clone() }), ..t.clone() });
            }
            if h.blocks > 1 {
                v.push(C05Trace { huge: Some(Huge { blocks: h.blocks - 1, ..h.clone() }), ..t.clone() });
                v.push(C05Trace { huge: Some(Huge { blocks: h.blocks / 2, ..h.clone() }), ..t.clone() });
            }
        }
        for m in shape::shrink_msg(&t.msg) {
            // a shrunk message has another output length: re-enumerate capacities for the same
            // framing/storage by dropping the capacity focus but keeping framing/storage
            v.push(C05Trace { msg: m, focus: None, huge: t.huge.clone(), edge_caps_only: t.edge_caps_only, roomy_sweep: t.roomy_sweep });
        }
        v
    }
    fn focus(t: &C05Trace, ctx: [u64; 4]) -> Option<C05Trace> {
        if ctx[0] != 1 {
            return None;
        }
        let framing = *FRAMINGS.get(ctx[1] as usize)?;
        let storage = match ctx[2] {
            0 => Storage::SliceEndGuard,
            1 => Storage::SliceStartGuard,
            _ => return None,
        };
        Some(C05Trace { msg: t.msg.clone(), focus: Some(Focus { framing, storage, cap: ctx[3] as usize }), huge: None, edge_caps_only: false, roomy_sweep: false })
    }
    fn rule() -> &'static str {
        "one case = one value (dynamic shape over the whole serde data model, boundary-biased) x one framing (plain, COBS, CRC-8/16/32/64/128, CRC-32 over COBS) with the fault 'sink runs out at byte c' enumerated completely: every slice capacity c in 0..=L+2 at both guard placements plus roomy capacities (L+3..L+24, L+32, L+64, 2L, 3L+1, 4096, ...; for one value in eight every capacity up to 3L+8), every instantiated heapless capacity <= L+2 and the next one above; plus size counter, Vec, VecDeque, recording Extend sink. distinct_nontrivial counts distinct (set of kinds in the shape, output length L, framing) with L >= 2, so that at least one capacity fails after a partial write."
    }
    fn real_components() -> &'static [&'static str] {
        &[
            "postcard::{to_slice, to_slice_cobs, to_vec, to_vec_cobs, to_vec_crc32, to_allocvec*, to_stdvec, to_extend, experimental::serialized_size}",
            "postcard::ser_flavors::{Slice, HVec, AllocVec, ExtendFlavor, Size, Cobs, crc::CrcModifier, crc::to_slice_u8..u128, crc::to_allocvec_u8..u128}",
            "postcard::Serializer, serialize_with_flavor, varint encoders",
            "cobs 0.2.3 EncoderState, crc 3.4 Digest, heapless 0.7 Vec",
        ]
    }
    fn simulated_components() -> &'static [&'static str] {
        &[
            "the caller's output buffer: exact-capacity slice inside a canary-filled arena, flush against a PROT_NONE guard page (trailing or leading)",
            "the capacity at which the sink runs out (the injected fault), enumerated completely per value",
            "a recording Extend<u8> sink",
        ]
    }
    fn assumptions() -> Vec<String> {
        vec![
            "Yardstick for bytes and length is the real unbounded serialisation of the same value and framing (to_allocvec / to_allocvec_cobs / crc::to_allocvec_uW), as the statement says; a value whose unbounded serialisation fails is skipped and counted.".into(),
            "'Ordinary value' excludes values that go through Serializer::collect_str: for them any Err satisfies the too-small case (postcard reports CollectStrError when the sink runs out in the second formatting pass); threshold and bounds checks are unchanged.".into(),
            "heapless capacities are const generics: instantiated for 0-20, 30-34, 126-130, 253-258 with plain, COBS and CRC-32 framing, and for 0-4, 8-10, 16-20, 32 with CRC-8/16/64/128 framing.".into(),
            "Out-of-bounds writes are observed through canaries (512-byte windows per call, full arena per value) and guard pages (SIGSEGV is caught by the supervising process); under Miri through exact-size allocations.".into(),
        ]
    }
}
