//! The one source of randomness: SplitMix64-seeded xoshiro256**, written here so the stream is
//! stable whatever crate versions are in the cache.

#[derive(Clone, Debug)]
pub struct Rng {
    s: [u64; 4],
}

pub fn splitmix(x: &mut u64) -> u64 {
    *x = x.wrapping_add(0x9E37_79B9_7F4A_7C15);
    let mut z = *x;
    z = (z ^ (z >> 30)).wrapping_mul(0xBF58_476D_1CE4_E5B9);
    z = (z ^ (z >> 27)).wrapping_mul(0x94D0_49BB_1331_11EB);
    z ^ (z >> 31)
}

/// Seed of run `i` of scenario `tag` under master seed `seed` (independent of thread count).
pub fn run_seed(seed: u64, tag: u64, i: u64) -> u64 {
    let mut x = seed ^ tag.rotate_left(17) ^ i.wrapping_mul(0x9E37_79B9_7F4A_7C15);
    let a = splitmix(&mut x);
    let b = splitmix(&mut x);
    a ^ b.rotate_left(29)
}

impl Rng {
    pub fn new(seed: u64) -> Self {
        let mut x = seed;
        let s = [
            splitmix(&mut x),
            splitmix(&mut x),
            splitmix(&mut x),
            splitmix(&mut x),
        ];
        Rng { s }
    }

    #[inline]
    pub fn next(&mut self) -> u64 {
        let r = self.s[1].wrapping_mul(5).rotate_left(7).wrapping_mul(9);
        let t = self.s[1] << 17;
        self.s[2] ^= self.s[0];
        self.s[3] ^= self.s[1];
        self.s[1] ^= self.s[2];
        self.s[0] ^= self.s[3];
        self.s[2] ^= t;
        self.s[3] = self.s[3].rotate_left(45);
        r
    }

    /// uniform in 0..n (n ≥ 1)
    #[inline]
    pub fn below(&mut self, n: u64) -> u64 {
        debug_assert!(n > 0);
        ((self.next() as u128 * n as u128) >> 64) as u64
    }

    #[inline]
    pub fn usize_below(&mut self, n: usize) -> usize {
        self.below(n as u64) as usize
    }

    /// uniform in lo..=hi
    #[inline]
    pub fn range(&mut self, lo: usize, hi: usize) -> usize {
        debug_assert!(lo <= hi);
        lo + self.below((hi - lo + 1) as u64) as usize
    }

    /// true with probability num/den
    #[inline]
    pub fn chance(&mut self, num: u64, den: u64) -> bool {
        self.below(den) < num
    }

    #[inline]
    pub fn pick<'a, T>(&mut self, xs: &'a [T]) -> &'a T {
        &xs[self.usize_below(xs.len())]
    }

    pub fn bytes(&mut self, n: usize) -> Vec<u8> {
        (0..n).map(|_| self.next() as u8).collect()
    }

    pub fn u128(&mut self) -> u128 {
        ((self.next() as u128) << 64) | self.next() as u128
    }

    /// small numbers often, large ones sometimes: geometric-ish in 0..=max
    pub fn small(&mut self, max: usize) -> usize {
        if max == 0 {
            return 0;
        }
        let mut v = 0usize;
        while v < max && self.chance(2, 3) {
            v += 1;
        }
        v
    }

    pub fn fork(&mut self) -> Rng {
        Rng::new(self.next())
    }
}

/// FNV-1a 64 — fixed-key hasher for signatures and event-log digests.
#[derive(Clone, Copy, Debug)]
pub struct Fnv(pub u64);

impl Default for Fnv {
    fn default() -> Self {
        Fnv(0xcbf2_9ce4_8422_2325)
    }
}

impl Fnv {
    pub fn new() -> Self {
        Self::default()
    }
    #[inline]
    pub fn byte(&mut self, b: u8) {
        self.0 ^= b as u64;
        self.0 = self.0.wrapping_mul(0x0000_0100_0000_01b3);
    }
    #[inline]
    pub fn bytes(&mut self, bs: &[u8]) {
        for b in bs {
            self.byte(*b);
        }
    }
    #[inline]
    pub fn u64(&mut self, v: u64) {
        self.bytes(&v.to_le_bytes());
    }
    #[inline]
    pub fn usize(&mut self, v: usize) {
        self.u64(v as u64);
    }
    pub fn str(&mut self, s: &str) {
        self.bytes(s.as_bytes());
        self.byte(0xff);
    }
    pub fn finish(&self) -> u64 {
        self.0
    }
}
