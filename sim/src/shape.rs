//! Workload: dynamic type trees (`Shape`) and values (`Val`) over the whole serde data model,
//! with `Serialize` / `DeserializeSeed` impls that drive the real postcard (de)serializer through
//! exactly the calls serde-derive would make, a boundary-biased generator, a reference wire
//! encoder (used only to synthesise workload, never as an oracle) and shrinking.

use crate::rng::Rng;
use serde::de::{self, DeserializeSeed, EnumAccess, MapAccess, SeqAccess, VariantAccess, Visitor};
use serde::ser::{
    SerializeMap, SerializeSeq, SerializeStruct, SerializeStructVariant, SerializeTuple,
    SerializeTupleStruct, SerializeTupleVariant,
};
use serde::{Deserialize, Deserializer, Serialize, Serializer};
use std::cell::{Cell, RefCell};
use std::fmt;
use std::marker::PhantomData;

#[derive(Clone, Debug, PartialEq, Eq, Serialize, Deserialize)]
pub enum Shape {
    Bool,
    I8,
    I16,
    I32,
    I64,
    I128,
    U8,
    U16,
    U32,
    U64,
    U128,
    F32,
    F64,
    Char,
    Str,
    /// a string the value hands to `Serializer::collect_str` (a `Display` type, like chrono's)
    DisplayStr,
    Bytes,
    Option(Box<Shape>),
    Unit,
    UnitStruct,
    Newtype(Box<Shape>),
    Seq(Box<Shape>),
    Tuple(Vec<Shape>),
    TupleStruct(Vec<Shape>),
    Map(Box<Shape>, Box<Shape>),
    Struct(Vec<Shape>),
    /// (variant index, variant shape); indices need not be dense
    Enum(Vec<(u32, Variant)>),
}

#[derive(Clone, Debug, PartialEq, Eq, Serialize, Deserialize)]
pub enum Variant {
    Unit,
    Newtype(Shape),
    Tuple(Vec<Shape>),
    Struct(Vec<Shape>),
}

#[derive(Clone, Debug, PartialEq, Eq, Serialize, Deserialize)]
pub enum Val {
    Bool(bool),
    /// any signed width
    #[serde(with = "i128_str")]
    Int(i128),
    /// any unsigned width
    #[serde(with = "u128_str")]
    Uint(u128),
    /// bit pattern
    F32(u32),
    /// bit pattern
    F64(u64),
    Char(char),
    Str(String),
    Bytes(Vec<u8>),
    Opt(Option<Box<Val>>),
    Unit,
    /// seq, tuple, tuple struct, struct
    Seq(Vec<Val>),
    Map(Vec<(Val, Val)>),
    /// enum: position in the shape's variant list, payload fields
    Var(usize, Vec<Val>),
}

mod i128_str {
    use serde::{Deserialize, Deserializer, Serializer};
    pub fn serialize<S: Serializer>(v: &i128, s: S) -> Result<S::Ok, S::Error> {
        s.serialize_str(&v.to_string())
    }
    pub fn deserialize<'de, D: Deserializer<'de>>(d: D) -> Result<i128, D::Error> {
        let s = String::deserialize(d)?;
        s.parse().map_err(serde::de::Error::custom)
    }
}
pub mod u128_str {
    use serde::{Deserialize, Deserializer, Serializer};
    pub fn serialize<S: Serializer>(v: &u128, s: S) -> Result<S::Ok, S::Error> {
        s.serialize_str(&v.to_string())
    }
    pub fn deserialize<'de, D: Deserializer<'de>>(d: D) -> Result<u128, D::Error> {
        let s = String::deserialize(d)?;
        s.parse().map_err(serde::de::Error::custom)
    }
}

pub const FIELD_NAMES: [&str; 16] = [
    "f0", "f1", "f2", "f3", "f4", "f5", "f6", "f7", "f8", "f9", "f10", "f11", "f12", "f13", "f14",
    "f15",
];
pub const MAX_FAN: usize = 8;
/// most zero-width elements the harness's own visitor accepts in ONE top-level decode (all
/// sequences together: nested sequences of zero-width elements multiply otherwise)
pub const ZST_CAP: usize = 4_000;
const TYPE_NAME: &str = "T";
const VARIANT_NAME: &str = "V";
/// `variants` as serde-derive passes it: one name per variant index 0..=max (indices are dense in
/// derived code; a deserializer may legitimately bound-check the discriminant against this list)
pub const MAX_VARIANT_INDEX: u32 = 16_399;
static VARIANT_NAMES: [&str; MAX_VARIANT_INDEX as usize + 1] = ["V"; MAX_VARIANT_INDEX as usize + 1];

// ---------------------------------------------------------------------------------------------
// kinds (for signatures and swarm masks)

pub const K_BOOL: u32 = 1 << 0;
pub const K_INT: u32 = 1 << 1;
pub const K_BIGINT: u32 = 1 << 2;
pub const K_FLOAT: u32 = 1 << 3;
pub const K_CHAR: u32 = 1 << 4;
pub const K_STR: u32 = 1 << 5;
pub const K_DISPLAY: u32 = 1 << 6;
pub const K_BYTES: u32 = 1 << 7;
pub const K_OPTION: u32 = 1 << 8;
pub const K_UNIT: u32 = 1 << 9;
pub const K_NEWTYPE: u32 = 1 << 10;
pub const K_SEQ: u32 = 1 << 11;
pub const K_TUPLE: u32 = 1 << 12;
pub const K_MAP: u32 = 1 << 13;
pub const K_STRUCT: u32 = 1 << 14;
pub const K_ENUM: u32 = 1 << 15;
pub const K_U8: u32 = 1 << 16;
pub const K_ALL: u32 = (1 << 17) - 1;

impl Shape {
    pub fn kinds(&self) -> u32 {
        use Shape::*;
        match self {
            Bool => K_BOOL,
            I8 | U8 => K_U8,
            I16 | I32 | I64 | U16 | U32 | U64 => K_INT,
            I128 | U128 => K_BIGINT,
            F32 | F64 => K_FLOAT,
            Char => K_CHAR,
            Str => K_STR,
            DisplayStr => K_DISPLAY,
            Bytes => K_BYTES,
            Option(s) => K_OPTION | s.kinds(),
            Unit | UnitStruct => K_UNIT,
            Newtype(s) => K_NEWTYPE | s.kinds(),
            Seq(s) => K_SEQ | s.kinds(),
            Tuple(fs) | TupleStruct(fs) => fs.iter().fold(K_TUPLE, |a, s| a | s.kinds()),
            Map(k, v) => K_MAP | k.kinds() | v.kinds(),
            Struct(fs) => fs.iter().fold(K_STRUCT, |a, s| a | s.kinds()),
            Enum(vs) => vs.iter().fold(K_ENUM, |a, (_, v)| {
                a | match v {
                    Variant::Unit => 0,
                    Variant::Newtype(s) => s.kinds(),
                    Variant::Tuple(fs) | Variant::Struct(fs) => {
                        fs.iter().fold(0, |a, s| a | s.kinds())
                    }
                }
            }),
        }
    }

    /// no bytes on the wire (a sequence of these costs nothing per element)
    pub fn zero_width(&self) -> bool {
        use Shape::*;
        match self {
            Unit | UnitStruct => true,
            Newtype(s) => s.zero_width(),
            Tuple(fs) | TupleStruct(fs) | Struct(fs) => fs.iter().all(|f| f.zero_width()),
            _ => false,
        }
    }

    /// does a value of this shape possibly go through `collect_str`?
    pub fn has_display(&self) -> bool {
        self.kinds() & K_DISPLAY != 0
    }
}

// ---------------------------------------------------------------------------------------------
// generation

#[derive(Clone, Debug)]
pub struct GenCfg {
    pub max_depth: u32,
    pub max_fan: usize,
    /// rough budget for the encoded length of a value
    pub budget: usize,
    /// enabled kinds (swarm mask)
    pub kinds: u32,
}

impl GenCfg {
    pub fn swarm(rng: &mut Rng, budget: usize) -> GenCfg {
        // each run enables a random subset of kinds; about one in four enables everything
        let kinds = if rng.chance(1, 4) {
            K_ALL
        } else {
            let mut k = 0u32;
            for bit in 0..17 {
                if rng.chance(1, 2) {
                    k |= 1 << bit;
                }
            }
            if k & (K_BOOL | K_INT | K_BIGINT | K_FLOAT | K_CHAR | K_STR | K_BYTES | K_U8 | K_UNIT)
                == 0
            {
                k |= K_U8;
            }
            k
        };
        GenCfg {
            max_depth: rng.range(0, 4) as u32,
            // now and then wide tuples / structs (derive handles any arity; 16 names are available)
            max_fan: if rng.chance(1, 12) { rng.range(9, 14) } else { rng.range(1, 5) },
            budget,
            kinds,
        }
    }
}

const LEAVES: [(u32, Shape); 17] = [
    (K_BOOL, Shape::Bool),
    (K_U8, Shape::I8),
    (K_INT, Shape::I16),
    (K_INT, Shape::I32),
    (K_INT, Shape::I64),
    (K_BIGINT, Shape::I128),
    (K_U8, Shape::U8),
    (K_INT, Shape::U16),
    (K_INT, Shape::U32),
    (K_INT, Shape::U64),
    (K_BIGINT, Shape::U128),
    (K_FLOAT, Shape::F32),
    (K_FLOAT, Shape::F64),
    (K_CHAR, Shape::Char),
    (K_STR, Shape::Str),
    (K_BYTES, Shape::Bytes),
    (K_UNIT, Shape::Unit),
];

pub fn gen_shape(rng: &mut Rng, cfg: &GenCfg, depth: u32) -> Shape {
    let leaf = |rng: &mut Rng| -> Shape {
        for _ in 0..64 {
            let (k, s) = rng.pick(&LEAVES);
            if cfg.kinds & k != 0 {
                if *s == Shape::Unit && rng.chance(1, 2) {
                    return Shape::UnitStruct;
                }
                if *s == Shape::Str && cfg.kinds & K_DISPLAY != 0 && rng.chance(1, 4) {
                    return Shape::DisplayStr;
                }
                return s.clone();
            }
        }
        if cfg.kinds & K_DISPLAY != 0 {
            return Shape::DisplayStr;
        }
        Shape::U8
    };
    if depth >= cfg.max_depth || rng.chance(1, 3) {
        return leaf(rng);
    }
    let fields = |rng: &mut Rng, min: usize| -> Vec<Shape> {
        let n = rng.range(min, cfg.max_fan.max(min));
        (0..n).map(|_| gen_shape(rng, cfg, depth + 1)).collect()
    };
    const COMPOSITES: [u32; 8] = [
        K_OPTION, K_NEWTYPE, K_SEQ, K_TUPLE, K_MAP, K_STRUCT, K_ENUM, K_TUPLE,
    ];
    for _ in 0..16 {
        let i = rng.usize_below(COMPOSITES.len());
        let k = COMPOSITES[i];
        if cfg.kinds & k == 0 {
            continue;
        }
        return match i {
            0 => Shape::Option(Box::new(gen_shape(rng, cfg, depth + 1))),
            1 => Shape::Newtype(Box::new(gen_shape(rng, cfg, depth + 1))),
            2 => {
                let mut e = gen_shape(rng, cfg, depth + 1);
                // sequences of zero-width elements stay in the workload, but rarely: decoding
                // garbage into one loops for as long as the (garbage) length prefix says
                if e.zero_width() && !rng.chance(1, 8) {
                    e = Shape::U8;
                }
                Shape::Seq(Box::new(e))
            }
            3 => Shape::Tuple(fields(rng, 0)),
            4 => {
                let mut k = gen_shape(rng, cfg, depth + 1);
                let v = gen_shape(rng, cfg, depth + 1);
                if k.zero_width() && v.zero_width() {
                    k = Shape::U8;
                }
                Shape::Map(Box::new(k), Box::new(v))
            }
            5 => Shape::Struct(fields(rng, 0)),
            6 => {
                let n = rng.range(1, cfg.max_fan.max(1));
                let mut idx: u32 = 0;
                let mut vs = Vec::new();
                for _ in 0..n {
                    let v = match rng.below(4) {
                        0 => Variant::Unit,
                        1 => Variant::Newtype(gen_shape(rng, cfg, depth + 1)),
                        2 => Variant::Tuple(fields(rng, 0)),
                        _ => Variant::Struct(fields(rng, 0)),
                    };
                    vs.push((idx, v));
                    // mostly dense, sometimes jump over a varint boundary
                    idx = match rng.below(8) {
                        0 => idx.max(126) + rng.range(0, 3) as u32,
                        1 => idx.max(16382) + rng.range(0, 3) as u32,
                        2 => idx.saturating_add(1 << rng.range(1, 13)),
                        _ => idx + 1,
                    };
                    if vs.iter().any(|(i, _)| *i == idx) {
                        idx += 1;
                    }
                    if idx > MAX_VARIANT_INDEX {
                        break; // one-, two- and three-byte discriminants are all reachable below this
                    }
                }
                Shape::Enum(vs)
            }
            _ => Shape::TupleStruct(fields(rng, 0)),
        };
    }
    leaf(rng)
}

fn boundary_u(rng: &mut Rng, bits: u32) -> u128 {
    let max: u128 = if bits == 128 { u128::MAX } else { (1u128 << bits) - 1 };
    let v = match rng.below(8) {
        0 => 0,
        1 => 1,
        2 => max,
        3 => max - 1,
        4 | 5 => {
            // around a varint boundary 2^(7k)
            let k = rng.range(1, (bits as usize + 6) / 7) as u32;
            let p = if 7 * k >= 128 { u128::MAX } else { 1u128 << (7 * k) };
            match rng.below(3) {
                0 => p.wrapping_sub(1),
                1 => p,
                _ => p.wrapping_add(1),
            }
        }
        6 => rng.below(300) as u128,
        _ => rng.u128(),
    };
    v & max
}

fn boundary_i(rng: &mut Rng, bits: u32) -> i128 {
    let u = boundary_u(rng, bits);
    // interpret as zig-zag so that the varint boundaries are hit on the wire
    let z = ((u >> 1) as i128) ^ (-((u & 1) as i128));
    let (min, max) = if bits == 128 {
        (i128::MIN, i128::MAX)
    } else {
        (-(1i128 << (bits - 1)), (1i128 << (bits - 1)) - 1)
    };
    match rng.below(10) {
        0 => min,
        1 => max,
        2 => -1,
        _ => z.clamp(min, max),
    }
}

const CHARS: [char; 12] = [
    'a', 'Z', '0', ' ', '\u{0}', '\u{7f}', '\u{80}', 'é', '\u{7ff}', '€', '\u{ffff}', '😀',
];

fn gen_string(rng: &mut Rng, budget: &mut isize) -> String {
    let want = gen_len(rng, *budget);
    let mut s = String::new();
    let ascii_only = rng.chance(1, 2);
    while s.len() < want {
        let c = if ascii_only {
            (b'a' + rng.below(26) as u8) as char
        } else {
            *rng.pick(&CHARS)
        };
        if s.len() + c.len_utf8() > want {
            if s.len() + 1 <= want {
                s.push('x');
                continue;
            }
            break;
        }
        s.push(c);
    }
    *budget -= s.len() as isize + 1;
    s
}

/// collection / string length: small mostly, sometimes at a varint or COBS boundary
fn gen_len(rng: &mut Rng, budget: isize) -> usize {
    let b = budget.max(0) as usize;
    let l = match rng.below(16) {
        0 => 0,
        1 => 1,
        2 => 127,
        3 => 128,
        4 => 253,
        5 => 254,
        6 => 255,
        7 => 508,
        8 => rng.range(0, 600),
        _ => rng.small(12),
    };
    l.min(b)
}

fn gen_bytes(rng: &mut Rng, budget: &mut isize) -> Vec<u8> {
    let n = gen_len(rng, *budget);
    let mode = rng.below(6);
    // period of the zero bytes in mode 3/5: non-zero runs that, together with the 1-2 byte length
    // prefix in front, are just below / at / above a full COBS block (254 non-zero bytes)
    let period = 251 + rng.usize_below(5);
    let v: Vec<u8> = (0..n)
        .map(|i| match mode {
            0 => 0,                                               // all zero
            1 => 1 + rng.below(255) as u8,                        // no zero: long COBS runs
            2 => if rng.chance(1, 4) { 0 } else { rng.next() as u8 }, // zero-rich
            3 | 5 => if i % (period + 1) == period { 0 } else { 0xAA }, // zero around a COBS block end
            _ => rng.next() as u8,
        })
        .collect();
    *budget -= n as isize + 1;
    v
}

pub fn gen_val(rng: &mut Rng, shape: &Shape, budget: &mut isize) -> Val {
    use Shape::*;
    match shape {
        Bool => {
            *budget -= 1;
            Val::Bool(rng.chance(1, 2))
        }
        I8 => {
            *budget -= 1;
            Val::Int(boundary_i(rng, 8))
        }
        I16 => {
            *budget -= 2;
            Val::Int(boundary_i(rng, 16))
        }
        I32 => {
            *budget -= 3;
            Val::Int(boundary_i(rng, 32))
        }
        I64 => {
            *budget -= 5;
            Val::Int(boundary_i(rng, 64))
        }
        I128 => {
            *budget -= 10;
            Val::Int(boundary_i(rng, 128))
        }
        U8 => {
            *budget -= 1;
            Val::Uint(boundary_u(rng, 8))
        }
        U16 => {
            *budget -= 2;
            Val::Uint(boundary_u(rng, 16))
        }
        U32 => {
            *budget -= 3;
            Val::Uint(boundary_u(rng, 32))
        }
        U64 => {
            *budget -= 5;
            Val::Uint(boundary_u(rng, 64))
        }
        U128 => {
            *budget -= 10;
            Val::Uint(boundary_u(rng, 128))
        }
        F32 => {
            *budget -= 4;
            Val::F32(match rng.below(8) {
                0 => 0,
                1 => 0x8000_0000,
                2 => 0x7fc0_0001,
                3 => 0xffff_ffff,
                4 => 1,
                5 => 1.5f32.to_bits(),
                _ => rng.next() as u32,
            })
        }
        F64 => {
            *budget -= 8;
            Val::F64(match rng.below(8) {
                0 => 0,
                1 => 0x8000_0000_0000_0000,
                2 => 0x7ff8_0000_0000_0001,
                3 => u64::MAX,
                4 => 1,
                5 => (-2.25f64).to_bits(),
                _ => rng.next(),
            })
        }
        Char => {
            *budget -= 3;
            Val::Char(if rng.chance(1, 2) {
                *rng.pick(&CHARS)
            } else {
                loop {
                    if let Some(c) = char::from_u32(rng.below(0x11_0000) as u32) {
                        break c;
                    }
                }
            })
        }
        Str => Val::Str(gen_string(rng, budget)),
        DisplayStr => {
            let mut t = gen_string(rng, budget);
            // sometimes text that a `Display` impl would produce by padding
            if rng.chance(1, 4) && *budget > 0 {
                let k = rng.range(1, 6).min(*budget as usize);
                t.extend(std::iter::repeat(' ').take(k));
                *budget -= k as isize;
            }
            Val::Str(t)
        }
        Bytes => Val::Bytes(gen_bytes(rng, budget)),
        Option(s) => {
            *budget -= 1;
            if rng.chance(1, 3) {
                Val::Opt(None)
            } else {
                Val::Opt(Some(Box::new(gen_val(rng, s, budget))))
            }
        }
        Unit | UnitStruct => Val::Unit,
        Newtype(s) => gen_val(rng, s, budget),
        Seq(s) => {
            let n = gen_len(rng, *budget);
            *budget -= 1;
            let mut v = Vec::new();
            for _ in 0..n {
                // zero-sized elements do not consume budget: cap them
                if *budget <= 0 && v.len() >= 3 {
                    break;
                }
                if v.len() >= 600 {
                    break;
                }
                let before = *budget;
                v.push(gen_val(rng, s, budget));
                if *budget == before {
                    // zero-width element: charge it anyway, so that one value never holds more
                    // zero-width elements than its size budget (the decode-side cap relies on it)
                    *budget -= 1;
                    if v.len() >= 40 {
                        break;
                    }
                }
            }
            Val::Seq(v)
        }
        Tuple(fs) | TupleStruct(fs) | Struct(fs) => {
            Val::Seq(fs.iter().map(|f| gen_val(rng, f, budget)).collect())
        }
        Map(k, v) => {
            let n = gen_len(rng, *budget).min(40);
            *budget -= 1;
            let mut m = Vec::new();
            for _ in 0..n {
                if *budget <= 0 && m.len() >= 2 {
                    break;
                }
                let before = *budget;
                let kk = gen_val(rng, k, budget);
                let vv = gen_val(rng, v, budget);
                if *budget == before {
                    *budget -= 1;
                }
                m.push((kk, vv));
            }
            Val::Map(m)
        }
        Enum(vs) => {
            let i = rng.usize_below(vs.len());
            *budget -= 1;
            let fields = match &vs[i].1 {
                Variant::Unit => vec![],
                Variant::Newtype(s) => vec![gen_val(rng, s, budget)],
                Variant::Tuple(fs) | Variant::Struct(fs) => {
                    fs.iter().map(|f| gen_val(rng, f, budget)).collect()
                }
            };
            Val::Var(i, fields)
        }
    }
}

/// A (shape, value) pair: one message.
#[derive(Clone, Debug, PartialEq, Eq, Serialize, Deserialize)]
pub struct Msg {
    pub shape: Shape,
    pub val: Val,
}

impl Msg {
    pub fn gen(rng: &mut Rng, cfg: &GenCfg) -> Msg {
        let shape = gen_shape(rng, cfg, 0);
        let mut budget = cfg.budget as isize;
        let val = gen_val(rng, &shape, &mut budget);
        Msg { shape, val }
    }

    /// generate a message whose reference encoding is at most `max_len` bytes
    pub fn gen_fitting(rng: &mut Rng, cfg: &GenCfg, max_len: usize) -> Msg {
        let mut c = cfg.clone();
        for attempt in 0..12 {
            c.budget = c.budget.min(max_len);
            let m = Msg::gen(rng, &c);
            if m.ref_encode().len() <= max_len {
                return m;
            }
            if attempt >= 3 {
                c.max_depth = c.max_depth.saturating_sub(1);
                c.budget = c.budget / 2;
            }
        }
        if max_len >= 1 {
            Msg { shape: Shape::U8, val: Val::Uint(rng.below(256) as u128) }
        } else {
            Msg { shape: Shape::Unit, val: Val::Unit }
        }
    }

    pub fn ref_encode(&self) -> Vec<u8> {
        let mut out = Vec::new();
        ref_encode(&self.shape, &self.val, &mut out);
        out
    }

    pub fn ser(&self) -> SV<'_> {
        SV(&self.shape, &self.val)
    }
}

// ---------------------------------------------------------------------------------------------
// reference wire encoder (postcard wire format, written from the specification)

pub fn ref_varint(mut v: u128, out: &mut Vec<u8>) {
    loop {
        let b = (v & 0x7f) as u8;
        v >>= 7;
        if v == 0 {
            out.push(b);
            return;
        }
        out.push(b | 0x80);
    }
}

fn zigzag(v: i128, bits: u32) -> u128 {
    let z = ((v << 1) ^ (v >> 127)) as u128;
    if bits == 128 {
        z
    } else {
        z & ((1u128 << bits) - 1)
    }
}

pub fn ref_encode(shape: &Shape, val: &Val, out: &mut Vec<u8>) {
    use Shape::*;
    match (shape, val) {
        (Bool, Val::Bool(b)) => out.push(*b as u8),
        (I8, Val::Int(i)) => out.push(*i as i8 as u8),
        (I16, Val::Int(i)) => ref_varint(zigzag(*i, 16), out),
        (I32, Val::Int(i)) => ref_varint(zigzag(*i, 32), out),
        (I64, Val::Int(i)) => ref_varint(zigzag(*i, 64), out),
        (I128, Val::Int(i)) => ref_varint(zigzag(*i, 128), out),
        (U8, Val::Uint(u)) => out.push(*u as u8),
        (U16 | U32 | U64 | U128, Val::Uint(u)) => ref_varint(*u, out),
        (F32, Val::F32(b)) => out.extend_from_slice(&b.to_le_bytes()),
        (F64, Val::F64(b)) => out.extend_from_slice(&b.to_le_bytes()),
        (Char, Val::Char(c)) => {
            let mut buf = [0u8; 4];
            let s = c.encode_utf8(&mut buf);
            ref_varint(s.len() as u128, out);
            out.extend_from_slice(s.as_bytes());
        }
        (Str | DisplayStr, Val::Str(s)) => {
            ref_varint(s.len() as u128, out);
            out.extend_from_slice(s.as_bytes());
        }
        (Bytes, Val::Bytes(b)) => {
            ref_varint(b.len() as u128, out);
            out.extend_from_slice(b);
        }
        (Option(_), Val::Opt(None)) => out.push(0),
        (Option(s), Val::Opt(Some(v))) => {
            out.push(1);
            ref_encode(s, v, out);
        }
        (Unit | UnitStruct, Val::Unit) => {}
        (Newtype(s), v) => ref_encode(s, v, out),
        (Seq(s), Val::Seq(vs)) => {
            ref_varint(vs.len() as u128, out);
            for v in vs {
                ref_encode(s, v, out);
            }
        }
        (Tuple(fs) | TupleStruct(fs) | Struct(fs), Val::Seq(vs)) => {
            assert_eq!(fs.len(), vs.len(), "harness: tuple arity");
            for (f, v) in fs.iter().zip(vs) {
                ref_encode(f, v, out);
            }
        }
        (Map(k, v), Val::Map(m)) => {
            ref_varint(m.len() as u128, out);
            for (kk, vv) in m {
                ref_encode(k, kk, out);
                ref_encode(v, vv, out);
            }
        }
        (Enum(vars), Val::Var(i, fields)) => {
            let (idx, var) = &vars[*i];
            ref_varint(*idx as u128, out);
            match var {
                Variant::Unit => {}
                Variant::Newtype(s) => ref_encode(s, &fields[0], out),
                Variant::Tuple(fs) | Variant::Struct(fs) => {
                    for (f, v) in fs.iter().zip(fields) {
                        ref_encode(f, v, out);
                    }
                }
            }
        }
        (s, v) => panic!("harness: value {v:?} does not match shape {s:?}"),
    }
}

// ---------------------------------------------------------------------------------------------
// Serialize: drive a serde Serializer exactly as derived code would

pub struct SV<'a>(pub &'a Shape, pub &'a Val);

/// Long strings and byte arrays reach the serializer at every alignment: heap blocks handed over
/// whole are 16-aligned, so for a source of `len` bytes (64 or more) with `len % 8 != 0` a copy
/// is made that starts `len % 8` bytes into its allocation. (A function of the data only.)
fn misaligned(src: &[u8]) -> Option<(Vec<u8>, usize)> {
    let k = src.len() % 8;
    if src.len() < 64 || k == 0 {
        return None;
    }
    let mut v = Vec::with_capacity(src.len() + k);
    v.resize(k, 0xA5);
    v.extend_from_slice(src);
    Some((v, k))
}

struct DisplayAs<'a>(&'a str);
impl fmt::Display for DisplayAs<'_> {
    fn fmt(&self, f: &mut fmt::Formatter<'_>) -> fmt::Result {
        // Real `Display` impls drive `fmt::Write` in different ways; which one is used here is a
        // function of the text (so that a value always serialises the same way): two pieces,
        // one `write_char` per character, left-alignment padding (the formatter emits the fill
        // with `write_char`), nested `write!`, many one-character `write_str` pieces.
        use fmt::Write;
        let s = self.0;
        let mode = (s.len() + s.as_bytes().first().copied().unwrap_or(0) as usize) % 5;
        match mode {
            1 => {
                for c in s.chars() {
                    f.write_char(c)?;
                }
                Ok(())
            }
            2 if s.ends_with(' ') => {
                let head = s.trim_end_matches(' ');
                let width = s.chars().count();
                write!(f, "{:<width$}", head, width = width)
            }
            3 => {
                let mut cut = s.len() / 3;
                while !s.is_char_boundary(cut) {
                    cut -= 1;
                }
                write!(f, "{}{}", &s[..cut], Inner(&s[cut..]))
            }
            4 => {
                let mut b = [0u8; 4];
                for c in s.chars() {
                    f.write_str(c.encode_utf8(&mut b))?;
                }
                Ok(())
            }
            _ => {
                let mut cut = s.len() / 2;
                while !s.is_char_boundary(cut) {
                    cut -= 1;
                }
                f.write_str(&s[..cut])?;
                f.write_str(&s[cut..])
            }
        }
    }
}

struct Inner<'a>(&'a str);
impl fmt::Display for Inner<'_> {
    fn fmt(&self, f: &mut fmt::Formatter<'_>) -> fmt::Result {
        use fmt::Write;
        let mut it = self.0.chars();
        if let Some(c) = it.next() {
            f.write_char(c)?;
        }
        f.write_str(it.as_str())
    }
}

impl Serialize for SV<'_> {
    fn serialize<S: Serializer>(&self, s: S) -> Result<S::Ok, S::Error> {
        use Shape::*;
        match (self.0, self.1) {
            (Bool, Val::Bool(b)) => s.serialize_bool(*b),
            (I8, Val::Int(i)) => s.serialize_i8(*i as i8),
            (I16, Val::Int(i)) => s.serialize_i16(*i as i16),
            (I32, Val::Int(i)) => s.serialize_i32(*i as i32),
            (I64, Val::Int(i)) => s.serialize_i64(*i as i64),
            (I128, Val::Int(i)) => s.serialize_i128(*i),
            (U8, Val::Uint(u)) => s.serialize_u8(*u as u8),
            (U16, Val::Uint(u)) => s.serialize_u16(*u as u16),
            (U32, Val::Uint(u)) => s.serialize_u32(*u as u32),
            (U64, Val::Uint(u)) => s.serialize_u64(*u as u64),
            (U128, Val::Uint(u)) => s.serialize_u128(*u),
            (F32, Val::F32(b)) => s.serialize_f32(f32::from_bits(*b)),
            (F64, Val::F64(b)) => s.serialize_f64(f64::from_bits(*b)),
            (Char, Val::Char(c)) => s.serialize_char(*c),
            (Str, Val::Str(x)) => match misaligned(x.as_bytes()) {
                // (bytes copied from a `str`: still valid UTF-8)
                Some((v, k)) => s.serialize_str(std::str::from_utf8(&v[k..]).map_err(|_| serde::ser::Error::custom("harness"))?),
                None => s.serialize_str(x),
            },
            (DisplayStr, Val::Str(x)) => s.collect_str(&DisplayAs(x)),
            (Bytes, Val::Bytes(b)) => match misaligned(b) {
                Some((v, k)) => s.serialize_bytes(&v[k..]),
                None => s.serialize_bytes(b),
            },
            (Option(_), Val::Opt(None)) => s.serialize_none(),
            (Option(sh), Val::Opt(Some(v))) => s.serialize_some(&SV(sh, v)),
            (Unit, Val::Unit) => s.serialize_unit(),
            (UnitStruct, Val::Unit) => s.serialize_unit_struct(TYPE_NAME),
            (Newtype(sh), v) => s.serialize_newtype_struct(TYPE_NAME, &SV(sh, v)),
            (Seq(sh), Val::Seq(vs)) if vs.len() % 2 == 0 => {
                // the path Vec<T>, &[T], BTreeSet<T> take
                s.collect_seq(vs.iter().map(|v| SV(sh, v)))
            }
            (Map(k, v), Val::Map(m)) if m.len() % 2 == 1 => {
                s.collect_map(m.iter().map(|(kk, vv)| (SV(k, kk), SV(v, vv))))
            }
            (Seq(sh), Val::Seq(vs)) => {
                let mut q = s.serialize_seq(Some(vs.len()))?;
                for v in vs {
                    q.serialize_element(&SV(sh, v))?;
                }
                q.end()
            }
            (Tuple(fs), Val::Seq(vs)) => {
                let mut q = s.serialize_tuple(fs.len())?;
                for (f, v) in fs.iter().zip(vs) {
                    q.serialize_element(&SV(f, v))?;
                }
                q.end()
            }
            (TupleStruct(fs), Val::Seq(vs)) => {
                let mut q = s.serialize_tuple_struct(TYPE_NAME, fs.len())?;
                for (f, v) in fs.iter().zip(vs) {
                    q.serialize_field(&SV(f, v))?;
                }
                q.end()
            }
            (Struct(fs), Val::Seq(vs)) => {
                let mut q = s.serialize_struct(TYPE_NAME, fs.len())?;
                for (i, (f, v)) in fs.iter().zip(vs).enumerate() {
                    q.serialize_field(FIELD_NAMES[i], &SV(f, v))?;
                }
                q.end()
            }
            (Map(k, v), Val::Map(m)) => {
                let mut q = s.serialize_map(Some(m.len()))?;
                for (kk, vv) in m {
                    q.serialize_entry(&SV(k, kk), &SV(v, vv))?;
                }
                q.end()
            }
            (Enum(vars), Val::Var(i, fields)) => {
                let (idx, var) = &vars[*i];
                match var {
                    Variant::Unit => s.serialize_unit_variant(TYPE_NAME, *idx, VARIANT_NAME),
                    Variant::Newtype(sh) => s.serialize_newtype_variant(
                        TYPE_NAME,
                        *idx,
                        VARIANT_NAME,
                        &SV(sh, &fields[0]),
                    ),
                    Variant::Tuple(fs) => {
                        let mut q =
                            s.serialize_tuple_variant(TYPE_NAME, *idx, VARIANT_NAME, fs.len())?;
                        for (f, v) in fs.iter().zip(fields) {
                            q.serialize_field(&SV(f, v))?;
                        }
                        q.end()
                    }
                    Variant::Struct(fs) => {
                        let mut q =
                            s.serialize_struct_variant(TYPE_NAME, *idx, VARIANT_NAME, fs.len())?;
                        for (i, (f, v)) in fs.iter().zip(fields).enumerate() {
                            q.serialize_field(FIELD_NAMES[i], &SV(f, v))?;
                        }
                        q.end()
                    }
                }
            }
            (sh, v) => Err(serde::ser::Error::custom(format!(
                "harness: value {v:?} does not match shape {sh:?}"
            ))),
        }
    }
}

// ---------------------------------------------------------------------------------------------
// Deserialize: DeserializeSeed over a Shape, plus two adapter *types* for APIs that take a type

/// one borrowed str/bytes handed out by the deserializer: address, length, contents at visit time
#[derive(Clone, Debug, PartialEq, Eq)]
pub struct Borrow {
    pub addr: usize,
    pub len: usize,
    pub copy: Vec<u8>,
}

thread_local! {
    static CUR_SHAPE: Cell<*const Shape> = const { Cell::new(std::ptr::null()) };
    static BORROWS: RefCell<Vec<Borrow>> = const { RefCell::new(Vec::new()) };
    static RECORD: Cell<bool> = const { Cell::new(false) };
    static TRANSIENT: Cell<u32> = const { Cell::new(0) };
    static ZST_SEEN: Cell<usize> = const { Cell::new(0) };
}

/// Run `f` with `shape` as the target type of `DynOwned` / `DynRef`.
pub fn with_shape<R>(shape: &Shape, f: impl FnOnce() -> R) -> R {
    struct Reset(*const Shape);
    impl Drop for Reset {
        fn drop(&mut self) {
            CUR_SHAPE.with(|c| c.set(self.0));
        }
    }
    let prev = CUR_SHAPE.with(|c| c.replace(shape as *const Shape));
    let _r = Reset(prev);
    f()
}

pub fn clear_borrows() {
    BORROWS.with(|b| b.borrow_mut().clear());
    TRANSIENT.with(|t| t.set(0));
}
pub fn take_borrows() -> Vec<Borrow> {
    BORROWS.with(|b| std::mem::take(&mut *b.borrow_mut()))
}
/// number of str/bytes visits that were *not* borrowed from the input
pub fn transient_visits() -> u32 {
    TRANSIENT.with(|t| t.get())
}

fn cur_shape<'a>() -> &'a Shape {
    let p = CUR_SHAPE.with(|c| c.get());
    assert!(!p.is_null(), "harness: DynOwned/DynRef used outside with_shape");
    // valid for the duration of the enclosing `with_shape` call, which outlives the deserialize
    unsafe { &*p }
}

/// Target type for APIs that need `T: DeserializeOwned`.
#[derive(Debug, Clone, PartialEq, Eq)]
pub struct DynOwned(pub Val);

impl<'de> Deserialize<'de> for DynOwned {
    fn deserialize<D: Deserializer<'de>>(d: D) -> Result<Self, D::Error> {
        RECORD.with(|r| r.set(false));
        ZST_SEEN.with(|c| c.set(0));
        Seed(cur_shape()).deserialize(d).map(DynOwned)
    }
}

/// Target type that borrows `&'de str` / `&'de [u8]` from the input and records where they live.
#[derive(Debug, Clone, PartialEq, Eq)]
pub struct DynRef<'de>(pub Val, pub PhantomData<&'de [u8]>);

impl<'de> Deserialize<'de> for DynRef<'de> {
    fn deserialize<D: Deserializer<'de>>(d: D) -> Result<Self, D::Error> {
        RECORD.with(|r| r.set(true));
        ZST_SEEN.with(|c| c.set(0));
        let r = Seed(cur_shape()).deserialize(d).map(|v| DynRef(v, PhantomData));
        RECORD.with(|r| r.set(false));
        r
    }
}

#[derive(Clone, Copy)]
pub struct Seed<'s>(pub &'s Shape);

#[derive(Clone, Copy)]
enum What<'s> {
    One(&'s Shape),
    Fields(&'s [Shape]),
}
struct V<'s>(What<'s>);

impl V<'_> {
    /// serde's char visitor takes a string of exactly one character
    fn char_from_str<E: de::Error>(&self, v: &str) -> Option<Result<Val, E>> {
        if !matches!(self.0, What::One(Shape::Char)) {
            return None;
        }
        let mut it = v.chars();
        Some(match (it.next(), it.next()) {
            (Some(c), None) => Ok(Val::Char(c)),
            _ => Err(E::invalid_value(de::Unexpected::Str(v), &"a single character")),
        })
    }
}

/// serde's primitive visitors convert between number types where the value fits; bring what was
/// visited into the representation of the shape that was asked for
fn normalize(shape: &Shape, v: Val) -> Val {
    use Shape::*;
    match (shape, v) {
        (I8 | I16 | I32 | I64 | I128, Val::Uint(u)) if u <= i128::MAX as u128 => Val::Int(u as i128),
        (U8 | U16 | U32 | U64 | U128, Val::Int(i)) if i >= 0 => Val::Uint(i as u128),
        (F32, Val::F64(b)) => Val::F32((f64::from_bits(b) as f32).to_bits()),
        (F64, Val::F32(b)) => Val::F64((f32::from_bits(b) as f64).to_bits()),
        (Str | DisplayStr, Val::Bytes(b)) => match String::from_utf8(b) {
            Ok(s) => Val::Str(s),
            Err(e) => Val::Bytes(e.into_bytes()),
        },
        (_, v) => v,
    }
}

fn record(bytes: &[u8]) {
    if RECORD.with(|r| r.get()) {
        BORROWS.with(|b| {
            b.borrow_mut().push(Borrow {
                addr: bytes.as_ptr() as usize,
                len: bytes.len(),
                copy: bytes.to_vec(),
            })
        });
    }
}

impl<'de> DeserializeSeed<'de> for Seed<'_> {
    type Value = Val;
    fn deserialize<D: Deserializer<'de>>(self, d: D) -> Result<Val, D::Error> {
        use Shape::*;
        let v = V(What::One(self.0));
        let shape = self.0;
        (match self.0 {
            Bool => d.deserialize_bool(v),
            I8 => d.deserialize_i8(v),
            I16 => d.deserialize_i16(v),
            I32 => d.deserialize_i32(v),
            I64 => d.deserialize_i64(v),
            I128 => d.deserialize_i128(v),
            U8 => d.deserialize_u8(v),
            U16 => d.deserialize_u16(v),
            U32 => d.deserialize_u32(v),
            U64 => d.deserialize_u64(v),
            U128 => d.deserialize_u128(v),
            F32 => d.deserialize_f32(v),
            F64 => d.deserialize_f64(v),
            Char => d.deserialize_char(v),
            // an owned target (String, serde_bytes::ByteBuf) asks for the owning variants, a
            // zero-copy target (&'de str, &'de [u8]) for the borrowing ones
            Str | DisplayStr if !RECORD.with(|r| r.get()) => d.deserialize_string(v),
            Bytes if !RECORD.with(|r| r.get()) => d.deserialize_byte_buf(v),
            Str | DisplayStr => d.deserialize_str(v),
            Bytes => d.deserialize_bytes(v),
            Option(_) => d.deserialize_option(v),
            Unit => d.deserialize_unit(v),
            UnitStruct => d.deserialize_unit_struct(TYPE_NAME, v),
            Newtype(_) => d.deserialize_newtype_struct(TYPE_NAME, v),
            Seq(_) => d.deserialize_seq(v),
            Tuple(fs) => d.deserialize_tuple(fs.len(), v),
            TupleStruct(fs) => d.deserialize_tuple_struct(TYPE_NAME, fs.len(), v),
            Map(_, _) => d.deserialize_map(v),
            Struct(fs) => d.deserialize_struct(TYPE_NAME, &FIELD_NAMES[..fs.len()], v),
            Enum(vars) => {
                let max = vars.iter().map(|(i, _)| *i).max().unwrap_or(0).min(MAX_VARIANT_INDEX) as usize;
                d.deserialize_enum(TYPE_NAME, &VARIANT_NAMES[..=max], v)
            }
        })
        .map(|v| normalize(shape, v))
    }
}

struct IdxSeed;
impl<'de> DeserializeSeed<'de> for IdxSeed {
    type Value = u64;
    fn deserialize<D: Deserializer<'de>>(self, d: D) -> Result<u64, D::Error> {
        struct IV;
        impl Visitor<'_> for IV {
            type Value = u64;
            fn expecting(&self, f: &mut fmt::Formatter) -> fmt::Result {
                f.write_str("variant index")
            }
            fn visit_u32<E>(self, v: u32) -> Result<u64, E> {
                Ok(v as u64)
            }
            fn visit_u64<E>(self, v: u64) -> Result<u64, E> {
                Ok(v)
            }
        }
        d.deserialize_identifier(IV)
    }
}

fn fields_from_seq<'de, A: SeqAccess<'de>>(fs: &[Shape], mut seq: A) -> Result<Vec<Val>, A::Error> {
    let mut out = Vec::with_capacity(fs.len());
    for (i, f) in fs.iter().enumerate() {
        match seq.next_element_seed(Seed(f))? {
            Some(v) => out.push(v),
            None => return Err(de::Error::invalid_length(i, &"more fields")),
        }
    }
    Ok(out)
}

impl<'de> Visitor<'de> for V<'_> {
    type Value = Val;

    fn expecting(&self, f: &mut fmt::Formatter) -> fmt::Result {
        f.write_str("a value of the current shape")
    }
    fn visit_bool<E>(self, v: bool) -> Result<Val, E> {
        Ok(Val::Bool(v))
    }
    fn visit_i8<E>(self, v: i8) -> Result<Val, E> {
        Ok(Val::Int(v as i128))
    }
    fn visit_i16<E>(self, v: i16) -> Result<Val, E> {
        Ok(Val::Int(v as i128))
    }
    fn visit_i32<E>(self, v: i32) -> Result<Val, E> {
        Ok(Val::Int(v as i128))
    }
    fn visit_i64<E>(self, v: i64) -> Result<Val, E> {
        Ok(Val::Int(v as i128))
    }
    fn visit_i128<E>(self, v: i128) -> Result<Val, E> {
        Ok(Val::Int(v))
    }
    fn visit_u8<E>(self, v: u8) -> Result<Val, E> {
        Ok(Val::Uint(v as u128))
    }
    fn visit_u16<E>(self, v: u16) -> Result<Val, E> {
        Ok(Val::Uint(v as u128))
    }
    fn visit_u32<E>(self, v: u32) -> Result<Val, E> {
        Ok(Val::Uint(v as u128))
    }
    fn visit_u64<E>(self, v: u64) -> Result<Val, E> {
        Ok(Val::Uint(v as u128))
    }
    fn visit_u128<E>(self, v: u128) -> Result<Val, E> {
        Ok(Val::Uint(v))
    }
    fn visit_f32<E>(self, v: f32) -> Result<Val, E> {
        Ok(Val::F32(v.to_bits()))
    }
    fn visit_f64<E>(self, v: f64) -> Result<Val, E> {
        Ok(Val::F64(v.to_bits()))
    }
    fn visit_char<E>(self, v: char) -> Result<Val, E> {
        Ok(Val::Char(v))
    }
    fn visit_borrowed_str<E: de::Error>(self, v: &'de str) -> Result<Val, E> {
        if let Some(r) = self.char_from_str(v) {
            return r;
        }
        if matches!(self.0, What::One(Shape::Bytes)) {
            record(v.as_bytes());
            return Ok(Val::Bytes(v.as_bytes().to_vec()));
        }
        record(v.as_bytes());
        Ok(Val::Str(v.to_owned()))
    }
    fn visit_str<E: de::Error>(self, v: &str) -> Result<Val, E> {
        if let Some(r) = self.char_from_str(v) {
            return r;
        }
        TRANSIENT.with(|t| t.set(t.get() + 1));
        if RECORD.with(|r| r.get()) {
            // a zero-copy target (`&'de str`) cannot take a transient string: same error as serde's
            return Err(E::invalid_type(de::Unexpected::Str(v), &"a borrowed string"));
        }
        Ok(Val::Str(v.to_owned()))
    }
    fn visit_string<E: de::Error>(self, v: String) -> Result<Val, E> {
        if let Some(r) = self.char_from_str(&v) {
            return r;
        }
        if matches!(self.0, What::One(Shape::Bytes)) {
            return Ok(Val::Bytes(v.into_bytes()));
        }
        Ok(Val::Str(v))
    }
    fn visit_byte_buf<E>(self, v: Vec<u8>) -> Result<Val, E> {
        Ok(Val::Bytes(v))
    }
    fn visit_borrowed_bytes<E>(self, v: &'de [u8]) -> Result<Val, E> {
        record(v);
        Ok(Val::Bytes(v.to_vec()))
    }
    fn visit_bytes<E: de::Error>(self, v: &[u8]) -> Result<Val, E> {
        TRANSIENT.with(|t| t.set(t.get() + 1));
        if RECORD.with(|r| r.get()) {
            return Err(E::invalid_type(de::Unexpected::Bytes(v), &"a borrowed byte array"));
        }
        Ok(Val::Bytes(v.to_vec()))
    }
    fn visit_none<E>(self) -> Result<Val, E> {
        Ok(Val::Opt(None))
    }
    fn visit_some<D: Deserializer<'de>>(self, d: D) -> Result<Val, D::Error> {
        match self.0 {
            What::One(Shape::Option(s)) => Ok(Val::Opt(Some(Box::new(Seed(s).deserialize(d)?)))),
            _ => Err(de::Error::custom("harness: visit_some on non-option")),
        }
    }
    fn visit_unit<E>(self) -> Result<Val, E> {
        // std's Option visitor takes a unit as None
        if matches!(self.0, What::One(Shape::Option(_))) {
            return Ok(Val::Opt(None));
        }
        Ok(Val::Unit)
    }
    fn visit_newtype_struct<D: Deserializer<'de>>(self, d: D) -> Result<Val, D::Error> {
        match self.0 {
            What::One(Shape::Newtype(s)) => Seed(s).deserialize(d),
            _ => Err(de::Error::custom("harness: visit_newtype_struct on non-newtype")),
        }
    }
    fn visit_seq<A: SeqAccess<'de>>(self, mut seq: A) -> Result<Val, A::Error> {
        match self.0 {
            What::One(Shape::Seq(s)) => {
                // like Vec<T>: trust the hint cautiously
                let cap = seq.size_hint().unwrap_or(0).min(32);
                let mut out = Vec::with_capacity(cap);
                while let Some(v) = seq.next_element_seed(Seed(s))? {
                    out.push(v);
                    if s.zero_width() {
                        // harness guard: our Val::Unit is not zero-sized like `()` is, and a
                        // garbage length prefix says how long this loops
                        let n = ZST_SEEN.with(|c| {
                            c.set(c.get() + 1);
                            c.get()
                        });
                        if n > ZST_CAP {
                            return Err(de::Error::custom("harness cap on zero-width elements"));
                        }
                    }
                }
                Ok(Val::Seq(out))
            }
            What::One(Shape::Tuple(fs) | Shape::TupleStruct(fs) | Shape::Struct(fs)) => {
                Ok(Val::Seq(fields_from_seq(fs, seq)?))
            }
            // a derived newtype struct also accepts a one-element sequence
            What::One(Shape::Newtype(s)) => match seq.next_element_seed(Seed(s))? {
                Some(v) => Ok(v),
                None => Err(de::Error::invalid_length(0, &"one element")),
            },
            What::Fields(fs) => Ok(Val::Seq(fields_from_seq(fs, seq)?)),
            _ => Err(de::Error::custom("harness: visit_seq on non-sequence shape")),
        }
    }
    fn visit_map<A: MapAccess<'de>>(self, mut map: A) -> Result<Val, A::Error> {
        match self.0 {
            What::One(Shape::Map(k, v)) => {
                let mut out = Vec::new();
                while let Some(kk) = map.next_key_seed(Seed(k))? {
                    let vv = map.next_value_seed(Seed(v))?;
                    out.push((kk, vv));
                    if k.zero_width() && v.zero_width() {
                        let n = ZST_SEEN.with(|c| {
                            c.set(c.get() + 1);
                            c.get()
                        });
                        if n > ZST_CAP {
                            return Err(de::Error::custom("harness cap on zero-width elements"));
                        }
                    }
                }
                Ok(Val::Map(out))
            }
            _ => Err(de::Error::custom("harness: visit_map on non-map shape")),
        }
    }
    fn visit_enum<A: EnumAccess<'de>>(self, data: A) -> Result<Val, A::Error> {
        let vars = match self.0 {
            What::One(Shape::Enum(vars)) => vars,
            _ => return Err(de::Error::custom("harness: visit_enum on non-enum shape")),
        };
        let (idx, variant) = data.variant_seed(IdxSeed)?;
        let pos = match vars.iter().position(|(i, _)| *i as u64 == idx) {
            Some(p) => p,
            None => {
                return Err(de::Error::invalid_value(
                    de::Unexpected::Unsigned(idx),
                    &"a known variant index",
                ))
            }
        };
        let fields = match &vars[pos].1 {
            Variant::Unit => {
                variant.unit_variant()?;
                vec![]
            }
            Variant::Newtype(s) => vec![variant.newtype_variant_seed(Seed(s))?],
            Variant::Tuple(fs) => match variant.tuple_variant(fs.len(), V(What::Fields(fs)))? {
                Val::Seq(v) => v,
                _ => unreachable!(),
            },
            Variant::Struct(fs) => {
                match variant.struct_variant(&FIELD_NAMES[..fs.len()], V(What::Fields(fs)))? {
                    Val::Seq(v) => v,
                    _ => unreachable!(),
                }
            }
        };
        Ok(Val::Var(pos, fields))
    }
}

// ---------------------------------------------------------------------------------------------
// shrinking

/// One-step simplifications of a message, simplest first.
pub fn shrink_msg(m: &Msg) -> Vec<Msg> {
    let mut out = Vec::new();
    // replace by a trivial message
    if m.shape != Shape::U8 {
        out.push(Msg { shape: Shape::U8, val: Val::Uint(1) });
    }
    for (s, v) in shrink_sv(&m.shape, &m.val) {
        out.push(Msg { shape: s, val: v });
    }
    out
}

fn children<'a>(shape: &'a Shape, val: &'a Val) -> Vec<(&'a Shape, &'a Val)> {
    use Shape::*;
    match (shape, val) {
        (Option(s), Val::Opt(Some(v))) => vec![(s.as_ref(), v.as_ref())],
        (Newtype(s), v) => vec![(s.as_ref(), v)],
        (Seq(s), Val::Seq(vs)) => vs.iter().map(|v| (s.as_ref(), v)).collect(),
        (Tuple(fs) | TupleStruct(fs) | Struct(fs), Val::Seq(vs)) => fs.iter().zip(vs).collect(),
        (Map(k, v), Val::Map(m)) => m
            .iter()
            .flat_map(|(kk, vv)| [(k.as_ref(), kk), (v.as_ref(), vv)])
            .collect(),
        (Enum(vars), Val::Var(i, fields)) => match &vars[*i].1 {
            Variant::Unit => vec![],
            Variant::Newtype(s) => vec![(s, &fields[0])],
            Variant::Tuple(fs) | Variant::Struct(fs) => fs.iter().zip(fields).collect(),
        },
        _ => vec![],
    }
}

fn shrink_sv(shape: &Shape, val: &Val) -> Vec<(Shape, Val)> {
    use Shape::*;
    let mut out: Vec<(Shape, Val)> = Vec::new();
    // hoist a child
    for (s, v) in children(shape, val) {
        out.push((s.clone(), v.clone()));
    }
    // simplify in place
    match (shape, val) {
        (Bool, Val::Bool(true)) => out.push((Bool, Val::Bool(false))),
        (_, Val::Int(i)) if *i != 0 => {
            out.push((shape.clone(), Val::Int(0)));
            out.push((shape.clone(), Val::Int(i / 2)));
        }
        (_, Val::Uint(u)) if *u != 0 => {
            out.push((shape.clone(), Val::Uint(0)));
            out.push((shape.clone(), Val::Uint(u / 2)));
        }
        (F32, Val::F32(b)) if *b != 0 => out.push((F32, Val::F32(0))),
        (F64, Val::F64(b)) if *b != 0 => out.push((F64, Val::F64(0))),
        (Char, Val::Char(c)) if *c != 'a' => out.push((Char, Val::Char('a'))),
        (DisplayStr, Val::Str(s)) => out.push((Str, Val::Str(s.clone()))),
        (Str, Val::Str(s)) if !s.is_empty() => {
            let cs: Vec<char> = s.chars().collect();
            out.push((Str, Val::Str(String::new())));
            out.push((Str, Val::Str(cs[..cs.len() / 2].iter().collect())));
            out.push((Str, Val::Str(cs[..cs.len() - 1].iter().collect())));
            if !s.is_ascii() || s.bytes().any(|b| b != b'a') {
                out.push((Str, Val::Str("a".repeat(s.len()))));
            }
        }
        (Bytes, Val::Bytes(b)) if !b.is_empty() => {
            out.push((Bytes, Val::Bytes(vec![])));
            out.push((Bytes, Val::Bytes(b[..b.len() / 2].to_vec())));
            out.push((Bytes, Val::Bytes(b[..b.len() - 1].to_vec())));
            out.push((Bytes, Val::Bytes(b[1..].to_vec())));
            if b.iter().any(|x| *x != 1) {
                out.push((Bytes, Val::Bytes(vec![1; b.len()])));
            }
        }
        (Option(_), Val::Opt(Some(_))) => out.push((shape.clone(), Val::Opt(None))),
        (Seq(_), Val::Seq(vs)) if !vs.is_empty() => {
            out.push((shape.clone(), Val::Seq(vec![])));
            out.push((shape.clone(), Val::Seq(vs[..vs.len() / 2].to_vec())));
            out.push((shape.clone(), Val::Seq(vs[..vs.len() - 1].to_vec())));
            out.push((shape.clone(), Val::Seq(vs[1..].to_vec())));
        }
        (Map(_, _), Val::Map(m)) if !m.is_empty() => {
            out.push((shape.clone(), Val::Map(vec![])));
            out.push((shape.clone(), Val::Map(m[..m.len() - 1].to_vec())));
        }
        (Tuple(fs) | TupleStruct(fs) | Struct(fs), Val::Seq(vs)) if !fs.is_empty() => {
            // drop one field
            for i in 0..fs.len() {
                let mut f2 = fs.clone();
                let mut v2 = vs.clone();
                f2.remove(i);
                v2.remove(i);
                let sh = match shape {
                    Tuple(_) => Tuple(f2),
                    TupleStruct(_) => TupleStruct(f2),
                    _ => Struct(f2),
                };
                out.push((sh, Val::Seq(v2)));
            }
        }
        _ => {}
    }
    // recurse: shrink one child in place
    match (shape, val) {
        (Option(s), Val::Opt(Some(v))) => {
            for (s2, v2) in shrink_sv(s, v) {
                out.push((Option(Box::new(s2)), Val::Opt(Some(Box::new(v2)))));
            }
        }
        (Newtype(s), v) => {
            for (s2, v2) in shrink_sv(s, v) {
                out.push((Newtype(Box::new(s2)), v2));
            }
        }
        (Tuple(fs) | TupleStruct(fs) | Struct(fs), Val::Seq(vs)) => {
            for i in 0..fs.len() {
                for (s2, v2) in shrink_sv(&fs[i], &vs[i]) {
                    let mut f2 = fs.clone();
                    let mut vv = vs.clone();
                    f2[i] = s2;
                    vv[i] = v2;
                    let sh = match shape {
                        Tuple(_) => Tuple(f2),
                        TupleStruct(_) => TupleStruct(f2),
                        _ => Struct(f2),
                    };
                    out.push((sh, Val::Seq(vv)));
                }
            }
        }
        (Seq(s), Val::Seq(vs)) if vs.len() <= 4 => {
            // same element shape must be kept: only value-level shrinks that keep the shape
            for i in 0..vs.len() {
                for (s2, v2) in shrink_sv(s, &vs[i]) {
                    if &s2 == s.as_ref() {
                        let mut vv = vs.clone();
                        vv[i] = v2;
                        out.push((shape.clone(), Val::Seq(vv)));
                    }
                }
            }
        }
        _ => {}
    }
    out
}

/// rough size of a message, used to order shrink candidates
pub fn msg_weight(m: &Msg) -> usize {
    fn sw(s: &Shape) -> usize {
        use Shape::*;
        1 + match s {
            Option(a) | Newtype(a) | Seq(a) => sw(a),
            Tuple(fs) | TupleStruct(fs) | Struct(fs) => fs.iter().map(sw).sum(),
            Map(k, v) => sw(k) + sw(v),
            Enum(vs) => vs
                .iter()
                .map(|(_, v)| match v {
                    Variant::Unit => 1,
                    Variant::Newtype(s) => sw(s),
                    Variant::Tuple(fs) | Variant::Struct(fs) => fs.iter().map(sw).sum(),
                })
                .sum(),
            _ => 0,
        }
    }
    sw(&m.shape) + m.ref_encode().len()
}
