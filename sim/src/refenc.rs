//! Reference encoders owned by the harness. Used only to synthesise workload (valid frames,
//! streams); never an oracle for a claimed property.

/// COBS-encode `data` and append the 0x00 sentinel, with the convention `cobs 0.2.3` implements
/// (a block of 254 non-zero bytes, code 0xFF, is always followed by another code byte).
pub fn cobs_frame(data: &[u8]) -> Vec<u8> {
    let mut out = vec![0u8];
    let mut code_idx = 0usize;
    let mut code = 1u8;
    for &b in data {
        if b == 0 {
            out[code_idx] = code;
            code_idx = out.len();
            out.push(0);
            code = 1;
        } else {
            out.push(b);
            code += 1;
            if code == 0xFF {
                out[code_idx] = 0xFF;
                code_idx = out.len();
                out.push(0);
                code = 1;
            }
        }
    }
    out[code_idx] = code;
    out.push(0);
    out
}

/// The same with the convention of the COBS paper (and of most other encoders): when the data
/// ends with a full block of 254 non-zero bytes, no further code byte follows it. Differs from
/// `cobs_frame` only for such data.
pub fn cobs_frame_canonical(data: &[u8]) -> Vec<u8> {
    let mut f = cobs_frame(data);
    let n = f.len();
    // cobs_frame ended with [.., 0xFF-block data, 0x01, 0x00]: drop the 0x01
    if n >= 257 && f[n - 2] == 1 && f[n - 257] == 0xFF && !f[n - 256..n - 2].contains(&0) && ends_on_block_boundary(&f[..n - 2]) {
        f.remove(n - 2);
    }
    f
}

/// does the chain of code bytes of `enc` (no sentinel) end exactly at its end with a 0xFF block?
pub fn ends_on_block_boundary(enc: &[u8]) -> bool {
    let mut pos = 0usize;
    let mut last = 0u8;
    while pos < enc.len() {
        last = enc[pos];
        if last == 0 {
            return false;
        }
        pos += last as usize;
    }
    pos == enc.len() && last == 0xFF
}

#[cfg(test)]
mod tests {
    use super::*;
    #[test]
    fn cobs_examples() {
        assert_eq!(cobs_frame(&[]), vec![1, 0]);
        assert_eq!(cobs_frame(&[0]), vec![1, 1, 0]);
        assert_eq!(cobs_frame(&[4, 1, 0, 0x20, 0x30]), vec![3, 4, 1, 3, 0x20, 0x30, 0]);
        let v = vec![7u8; 254];
        let f = cobs_frame(&v);
        assert_eq!(f.len(), 254 + 3);
        assert_eq!(f[0], 0xFF);
        assert_eq!(f[255], 1);
        let c = cobs_frame_canonical(&v);
        assert_eq!(c.len(), 256);
        assert_eq!(c[0], 0xFF);
        assert_eq!(c[255], 0);
        // not at a block boundary: identical
        let w = vec![7u8; 255];
        assert_eq!(cobs_frame_canonical(&w), cobs_frame(&w));
        let mut z = vec![7u8; 254];
        z[3] = 0;
        assert_eq!(cobs_frame_canonical(&z), cobs_frame(&z));
    }
}
