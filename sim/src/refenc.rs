//! Reference encoders owned by the harness. Used only to synthesise workload (valid frames,
//! streams); never an oracle for a claimed property.

/// COBS-encode `data` and append the 0x00 sentinel, with the convention `cobs 0.2.3` implements
/// (a block of 254 non-zero bytes, code 0xFF, is always followed by another code byte).
pub fn cobs_frame(data: &[u8]) -> Vec<u8> {
    let mut out = vec![0u8];
    let mut code_idx = 0usize;
    let mut code = 1u8;
    for &b in data {
        if b == 0 {
            out[code_idx] = code;
            code_idx = out.len();
            out.push(0);
            code = 1;
        } else {
            out.push(b);
            code += 1;
            if code == 0xFF {
                out[code_idx] = 0xFF;
                code_idx = out.len();
                out.push(0);
                code = 1;
            }
        }
    }
    out[code_idx] = code;
    out.push(0);
    out
}

#[cfg(test)]
mod tests {
    use super::*;
    #[test]
    fn cobs_examples() {
        assert_eq!(cobs_frame(&[]), vec![1, 0]);
        assert_eq!(cobs_frame(&[0]), vec![1, 1, 0]);
        assert_eq!(cobs_frame(&[4, 1, 0, 0x20, 0x30]), vec![3, 4, 1, 3, 0x20, 0x30, 0]);
        let v = vec![7u8; 254];
        let f = cobs_frame(&v);
        assert_eq!(f.len(), 254 + 3);
        assert_eq!(f[0], 0xFF);
        assert_eq!(f[255], 1);
    }
}
