//! Guarded, canary-filled memory for every buffer the simulator hands to the code under test.
//!
//! Layout (not under Miri): `[PROT_NONE page][RW pages][PROT_NONE page]`, one arena per thread.
//! A buffer of `c` bytes is placed flush against the trailing guard (an overrun faults at the
//! first stray byte) or flush against the leading guard (an underrun faults). The RW region is
//! kept filled with a position-dependent pattern; after each call everything outside the buffer
//! is compared with the pattern.
//!
//! Under Miri there is no mmap: each buffer is its own exact-size heap allocation, so a one-byte
//! overrun is an out-of-allocation access that Miri reports.

use std::cell::RefCell;

pub const PAGE: usize = 4096;
pub const RW_PAGES: usize = 24;
pub const RW: usize = PAGE * RW_PAGES;

#[derive(Clone, Copy, Debug, PartialEq, Eq, serde::Serialize, serde::Deserialize)]
pub enum Place {
    /// buffer ends at the trailing guard page
    End,
    /// buffer starts right after the leading guard page
    Start,
}

#[inline]
pub fn pattern(off: usize) -> u8 {
    // never 0x00 and position dependent
    (((off.wrapping_mul(167)).wrapping_add(off >> 8).wrapping_add(13)) as u8) | 0x01
}

pub struct Arena {
    #[cfg(not(miri))]
    base: *mut u8, // start of the RW region
    #[cfg(miri)]
    _unused: (),
}

/// What the canary comparison found after a call.
#[derive(Debug, Clone, PartialEq, Eq)]
pub struct Stray {
    /// offset relative to the buffer start (negative = before the buffer)
    pub rel: isize,
    pub found: u8,
}

#[cfg(not(miri))]
impl Arena {
    fn new() -> Arena {
        unsafe {
            let total = RW + 2 * PAGE;
            let p = libc::mmap(
                std::ptr::null_mut(),
                total,
                libc::PROT_READ | libc::PROT_WRITE,
                libc::MAP_PRIVATE | libc::MAP_ANONYMOUS,
                -1,
                0,
            );
            if p == libc::MAP_FAILED {
                eprintln!("harness error: mmap failed");
                std::process::exit(2);
            }
            let p = p as *mut u8;
            if libc::mprotect(p as *mut _, PAGE, libc::PROT_NONE) != 0
                || libc::mprotect(p.add(PAGE + RW) as *mut _, PAGE, libc::PROT_NONE) != 0
            {
                eprintln!("harness error: mprotect failed");
                std::process::exit(2);
            }
            let base = p.add(PAGE);
            for i in 0..RW {
                *base.add(i) = pattern(i);
            }
            Arena { base }
        }
    }

    /// Run `f` on a buffer of `len` bytes placed at `place`; afterwards check every byte of the
    /// arena outside the buffer and the bytes of the buffer from `untouched_from(result)` on,
    /// then restore the pattern. Returns f's result and the first stray byte found, if any.
    pub fn with_buf<R>(
        &mut self,
        len: usize,
        place: Place,
        f: impl FnOnce(&mut [u8]) -> R,
        untouched_from: impl FnOnce(&R) -> Option<usize>,
    ) -> (R, Option<Stray>) {
        assert!(len <= RW, "harness: buffer larger than the arena");
        let off = match place {
            Place::End => RW - len,
            Place::Start => 0,
        };
        let r = {
            let buf = unsafe { std::slice::from_raw_parts_mut(self.base.add(off), len) };
            f(buf)
        };
        let all = unsafe { std::slice::from_raw_parts_mut(self.base, RW) };
        let mut stray = None;
        // outside the buffer: a window of 512 bytes on each side every call (the full arena is
        // verified by `verify_all`, called once per trace)
        let lo = off.saturating_sub(512);
        let hi = (off + len + 512).min(RW);
        for i in (lo..off).chain(off + len..hi) {
            if all[i] != pattern(i) {
                stray = Some(Stray { rel: i as isize - off as isize, found: all[i] });
                all[i] = pattern(i);
                break;
            }
        }
        if stray.is_none() {
            if let Some(from) = untouched_from(&r) {
                for i in off + from.min(len)..off + len {
                    if all[i] != pattern(i) {
                        stray = Some(Stray { rel: i as isize - off as isize, found: all[i] });
                        break;
                    }
                }
            }
        }
        for i in lo..hi {
            all[i] = pattern(i);
        }
        (r, stray)
    }

    /// Compare the whole RW region with the pattern (and repair it).
    pub fn verify_all(&mut self) -> Option<usize> {
        let all = unsafe { std::slice::from_raw_parts_mut(self.base, RW) };
        let mut bad = None;
        for (i, b) in all.iter_mut().enumerate() {
            if *b != pattern(i) {
                if bad.is_none() {
                    bad = Some(i);
                }
                *b = pattern(i);
            }
        }
        bad
    }
}

#[cfg(miri)]
impl Arena {
    fn new() -> Arena {
        Arena { _unused: () }
    }

    pub fn with_buf<R>(
        &mut self,
        len: usize,
        _place: Place,
        f: impl FnOnce(&mut [u8]) -> R,
        untouched_from: impl FnOnce(&R) -> Option<usize>,
    ) -> (R, Option<Stray>) {
        // exact-size allocation: Miri flags any access outside it
        let mut b: Box<[u8]> = (0..len).map(pattern).collect();
        let r = f(&mut b);
        let mut stray = None;
        if let Some(from) = untouched_from(&r) {
            for i in from.min(len)..len {
                if b[i] != pattern(i) {
                    stray = Some(Stray { rel: i as isize, found: b[i] });
                    break;
                }
            }
        }
        (r, stray)
    }

    pub fn verify_all(&mut self) -> Option<usize> {
        None
    }
}

#[cfg(not(miri))]
impl Arena {
    /// A raw region of `size` bytes ending exactly at the trailing guard page (`size` must be a
    /// multiple of the alignment wanted). The caller has it to itself until `raw_release`.
    pub fn raw_end(&mut self, size: usize) -> *mut u8 {
        assert!(size <= RW, "harness: object larger than the arena");
        unsafe { self.base.add(RW - size) }
    }

    /// Check the canaries in front of a region handed out by `raw_end` and restore the pattern
    /// over region and window. Returns the (negative) offset of the first stray byte, if any.
    pub fn raw_release(&mut self, size: usize) -> Option<isize> {
        let all = unsafe { std::slice::from_raw_parts_mut(self.base, RW) };
        let off = RW - size;
        let lo = off.saturating_sub(512);
        let mut stray = None;
        for i in lo..off {
            if all[i] != pattern(i) {
                stray = Some(i as isize - off as isize);
                break;
            }
        }
        for i in lo..RW {
            all[i] = pattern(i);
        }
        stray
    }
}

thread_local! {
    static ARENA: RefCell<Option<Arena>> = const { RefCell::new(None) };
}

/// The calling thread's arena.
pub fn with_arena<R>(f: impl FnOnce(&mut Arena) -> R) -> R {
    ARENA.with(|a| {
        let mut a = a.borrow_mut();
        if a.is_none() {
            *a = Some(Arena::new());
        }
        f(a.as_mut().unwrap())
    })
}
