//! C10: CRC framing. World: sender frames a value with `to_*_crc*`, the wire damages the frame
//! (bit flips, bursts, byte overwrites, truncation), the receiver runs `take_from_bytes_crc*`.
//! The only alarm under damage is the converse clause of the statement: whatever is accepted must
//! be followed by its correct checksum — computed by a bitwise CRC written in this file.

use crate::arena::{self, Place};
use crate::rng::{Fnv, Rng};
use crate::runner::{Outcome, Scenario, Tier};
use crate::shape::{self, DynOwned, DynRef, GenCfg, Msg, Val};
use crate::sut;
use crc::*;
use postcard::de_flavors::crc as decrc;
use postcard::ser_flavors::crc as sercrc;
use serde::{Deserialize, Serialize};

#[derive(Clone, Copy, Debug)]
pub struct AlgParams {
    pub name: &'static str,
    pub width: u32,
    pub poly: u128,
    pub init: u128,
    pub refin: bool,
    pub refout: bool,
    pub xorout: u128,
    pub check: u128,
}

fn reflect(v: u128, w: u32) -> u128 {
    let mut r = 0u128;
    for i in 0..w {
        if v >> i & 1 == 1 {
            r |= 1 << (w - 1 - i);
        }
    }
    r
}

/// Rocksoft-model CRC, one message bit at a time. The oracle of this scenario.
pub fn bitwise_crc(p: &AlgParams, data: &[u8]) -> u128 {
    let w = p.width;
    let mask: u128 = if w == 128 { u128::MAX } else { (1u128 << w) - 1 };
    let mut crc = p.init & mask;
    for &b in data {
        for i in 0..8 {
            let bit = if p.refin { (b >> i) & 1 } else { (b >> (7 - i)) & 1 } as u128;
            let top = (crc >> (w - 1)) & 1;
            crc = (crc << 1) & mask;
            if top ^ bit == 1 {
                crc ^= p.poly;
            }
        }
    }
    if p.refout {
        crc = reflect(crc, w);
    }
    (crc ^ p.xorout) & mask
}

type PcResult<T> = Result<T, postcard::Error>;

thread_local! {
    /// decode into the borrowing target (`&'de str` / `&'de [u8]` taken from the input) instead of
    /// the owning one: set per trace
    static BORROWED: std::cell::Cell<bool> = const { std::cell::Cell::new(false) };
    /// a borrowed field of the last borrowing decode did not lie inside the input slice
    static BORROW_OUTSIDE: std::cell::Cell<bool> = const { std::cell::Cell::new(false) };
}

fn borrowed_mode() -> bool {
    BORROWED.with(|b| b.get())
}

/// after a borrowing decode of `x`: every borrowed field must lie inside `x`
fn note_borrows(x: &[u8]) {
    let lo = x.as_ptr() as usize;
    let hi = lo + x.len();
    let bad = shape::take_borrows().iter().any(|b| b.len > 0 && (b.addr < lo || b.addr + b.len > hi));
    BORROW_OUTSIDE.with(|f| f.set(bad));
}

/// result of a CRC-checked take: value, length of the remainder, remainder is the suffix of input
pub struct Taken {
    pub val: Val,
    pub rem: usize,
    pub suffix: bool,
}

pub struct Ops {
    pub bytes: usize,
    pub algs: &'static [AlgParams],
    pub ser_alloc: fn(&Msg, usize) -> Result<PcResult<Vec<u8>>, String>,
    pub ser_slice: fn(&Msg, usize, &mut [u8]) -> Result<PcResult<(isize, Vec<u8>)>, String>,
    pub ser_hvec: fn(&Msg, usize) -> Result<PcResult<Vec<u8>>, String>,
    pub take: fn(&[u8], usize) -> Result<PcResult<Taken>, String>,
    pub from: fn(&[u8], usize) -> Result<PcResult<Val>, String>,
    /// the crc crate's one-shot checksum (cross-checked against `bitwise_crc`)
    pub oneshot: fn(&[u8], usize) -> u128,
}

macro_rules! width_ops {
    ($modname:ident, $int:ty, $bytes:expr, [$($alg:ident),+],
     $to_slice:ident, $to_vec:ident, $to_allocvec:ident, $from_bytes:ident, $take_from_bytes:ident) => {
        pub mod $modname {
            use super::*;
            pub static CRCS: &[Crc<$int>] = &[$(Crc::<$int>::new(&$alg)),+];
            pub static PARAMS: &[AlgParams] = &[$(AlgParams {
                name: stringify!($alg),
                width: $alg.width as u32,
                poly: $alg.poly as u128,
                init: $alg.init as u128,
                refin: $alg.refin,
                refout: $alg.refout,
                xorout: $alg.xorout as u128,
                check: $alg.check as u128,
            }),+];
            fn ser_alloc(m: &Msg, a: usize) -> Result<PcResult<Vec<u8>>, String> {
                let v = m.ser();
                sut::call(|| sercrc::$to_allocvec(&v, CRCS[a].digest()))
            }
            fn ser_slice(m: &Msg, a: usize, buf: &mut [u8]) -> Result<PcResult<(isize, Vec<u8>)>, String> {
                let v = m.ser();
                let base = buf.as_ptr() as isize;
                sut::call(move || {
                    sercrc::$to_slice(&v, buf, CRCS[a].digest())
                        .map(|s| (s.as_ptr() as isize - base, s.to_vec()))
                })
            }
            fn ser_hvec(m: &Msg, a: usize) -> Result<PcResult<Vec<u8>>, String> {
                let v = m.ser();
                sut::call(|| sercrc::$to_vec::<_, 400>(&v, CRCS[a].digest()).map(|x| x.to_vec()))
            }
            fn take(x: &[u8], a: usize) -> Result<PcResult<Taken>, String> {
                if borrowed_mode() {
                    shape::clear_borrows();
                    let r = sut::call(|| {
                        decrc::$take_from_bytes::<DynRef>(x, CRCS[a].digest()).map(|(d, rem)| Taken {
                            val: d.0,
                            rem: rem.len(),
                            suffix: rem.is_empty()
                                || (rem.len() <= x.len() && rem.as_ptr_range().end == x.as_ptr_range().end),
                        })
                    });
                    note_borrows(x);
                    return r;
                }
                sut::call(|| {
                    decrc::$take_from_bytes::<DynOwned>(x, CRCS[a].digest()).map(|(d, rem)| Taken {
                        val: d.0,
                        rem: rem.len(),
                        // an empty remainder says "nothing after the checksum", wherever it points
                        suffix: rem.is_empty()
                            || (rem.len() <= x.len() && rem.as_ptr_range().end == x.as_ptr_range().end),
                    })
                })
            }
            fn from(x: &[u8], a: usize) -> Result<PcResult<Val>, String> {
                if borrowed_mode() {
                    shape::clear_borrows();
                    let r = sut::call(|| decrc::$from_bytes::<DynRef>(x, CRCS[a].digest()).map(|d| d.0));
                    note_borrows(x);
                    return r;
                }
                sut::call(|| decrc::$from_bytes::<DynOwned>(x, CRCS[a].digest()).map(|d| d.0))
            }
            fn oneshot(x: &[u8], a: usize) -> u128 {
                CRCS[a].checksum(x) as u128
            }
            pub static OPS: Ops = Ops {
                bytes: $bytes,
                algs: PARAMS,
                ser_alloc,
                ser_slice,
                ser_hvec,
                take,
                from,
                oneshot,
            };
        }
    };
}

width_ops!(w8, u8, 1, [CRC_8_SMBUS, CRC_8_BLUETOOTH, CRC_8_MAXIM_DOW, CRC_8_AUTOSAR, CRC_7_MMC, CRC_5_USB],
    to_slice_u8, to_vec_u8, to_allocvec_u8, from_bytes_u8, take_from_bytes_u8);
width_ops!(w16, u16, 2, [CRC_16_IBM_SDLC, CRC_16_XMODEM, CRC_16_MODBUS, CRC_16_ARC, CRC_15_CAN, CRC_12_DECT],
    to_slice_u16, to_vec_u16, to_allocvec_u16, from_bytes_u16, take_from_bytes_u16);
width_ops!(w32, u32, 4, [CRC_32_ISCSI, CRC_32_ISO_HDLC, CRC_32_BZIP2, CRC_32_MPEG_2, CRC_24_OPENPGP, CRC_31_PHILIPS],
    to_slice_u32, to_vec_u32, to_allocvec_u32, from_bytes_u32, take_from_bytes_u32);
width_ops!(w64, u64, 8, [CRC_64_ECMA_182, CRC_64_XZ, CRC_64_GO_ISO, CRC_40_GSM],
    to_slice_u64, to_vec_u64, to_allocvec_u64, from_bytes_u64, take_from_bytes_u64);
/// The catalogue has no algorithm wider than 82 bits; a full-width one, so that all 16 checksum
/// bytes carry information (parameters made up, `check` computed by the crc crate itself — the
/// oracle's own value is still computed independently, bit by bit).
pub const CRC_128_PCSIM_BASE: Algorithm<u128> = Algorithm {
    width: 128,
    poly: 0x0000_0000_0000_0000_0000_0000_0000_0087 | (0x9d5c_4b3a_2f1e_0d17_u128 << 64) | (0x1b2a_3948_5766_7584_u128 << 8) | 1,
    init: u128::MAX,
    refin: true,
    refout: true,
    xorout: 0x0123_4567_89ab_cdef_fedc_ba98_7654_3210,
    check: 0,
    residue: 0,
};
pub const CRC_128_PCSIM: Algorithm<u128> = Algorithm {
    check: Crc::<u128>::new(&CRC_128_PCSIM_BASE).checksum(b"123456789"),
    ..CRC_128_PCSIM_BASE
};
pub const CRC_128_PCSIM_MSB: Algorithm<u128> = Algorithm {
    refin: false,
    refout: false,
    check: Crc::<u128>::new(&Algorithm { refin: false, refout: false, ..CRC_128_PCSIM_BASE }).checksum(b"123456789"),
    ..CRC_128_PCSIM_BASE
};

width_ops!(w128, u128, 16, [CRC_82_DARC, CRC_128_PCSIM, CRC_128_PCSIM_MSB],
    to_slice_u128, to_vec_u128, to_allocvec_u128, from_bytes_u128, take_from_bytes_u128);

pub const WIDTHS: [usize; 5] = [8, 16, 32, 64, 128];

/// For CRC-32 the crate root re-exports convenience wrappers (`postcard::take_from_bytes_crc32`, …).
/// They are one-line delegations; half of the CRC-32 algorithms go through them so that an edit of
/// a wrapper is seen under damage too.
mod w32root {
    use super::*;
    fn take(x: &[u8], a: usize) -> Result<PcResult<Taken>, String> {
        if a % 2 == 1 {
            return (w32::OPS.take)(x, a);
        }
        if borrowed_mode() {
            shape::clear_borrows();
            let r = sut::call(|| {
                postcard::take_from_bytes_crc32::<DynRef>(x, w32::CRCS[a].digest()).map(|(d, rem)| Taken {
                    val: d.0,
                    rem: rem.len(),
                    suffix: rem.is_empty() || (rem.len() <= x.len() && rem.as_ptr_range().end == x.as_ptr_range().end),
                })
            });
            note_borrows(x);
            return r;
        }
        sut::call(|| {
            postcard::take_from_bytes_crc32::<DynOwned>(x, w32::CRCS[a].digest()).map(|(d, rem)| Taken {
                val: d.0,
                rem: rem.len(),
                suffix: rem.is_empty() || (rem.len() <= x.len() && rem.as_ptr_range().end == x.as_ptr_range().end),
            })
        })
    }
    fn from(x: &[u8], a: usize) -> Result<PcResult<Val>, String> {
        if a % 2 == 1 {
            return (w32::OPS.from)(x, a);
        }
        if borrowed_mode() {
            shape::clear_borrows();
            let r = sut::call(|| postcard::from_bytes_crc32::<DynRef>(x, w32::CRCS[a].digest()).map(|d| d.0));
            note_borrows(x);
            return r;
        }
        sut::call(|| postcard::from_bytes_crc32::<DynOwned>(x, w32::CRCS[a].digest()).map(|d| d.0))
    }
    pub static OPS: Ops = Ops {
        bytes: 4,
        algs: w32::PARAMS,
        ser_alloc: w32::OPS.ser_alloc,
        ser_slice: w32::OPS.ser_slice,
        ser_hvec: w32::OPS.ser_hvec,
        take,
        from,
        oneshot: w32::OPS.oneshot,
    };
}

pub fn ops(width_bits: usize) -> Option<&'static Ops> {
    match width_bits {
        8 => Some(&w8::OPS),
        16 => Some(&w16::OPS),
        32 => Some(&w32root::OPS),
        64 => Some(&w64::OPS),
        128 => Some(&w128::OPS),
        _ => None,
    }
}

/// Startup self-test of the oracle: the bitwise CRC reproduces every algorithm's catalogue check
/// value and agrees with the crc crate's one-shot API. A mismatch is a harness error.
pub fn oracle_selftest() -> Result<(), String> {
    for w in WIDTHS {
        let o = ops(w).unwrap();
        for (a, p) in o.algs.iter().enumerate() {
            let got = bitwise_crc(p, b"123456789");
            if got != p.check {
                return Err(format!("bitwise CRC of {} gives {got:#x}, catalogue check {:#x}", p.name, p.check));
            }
            for probe in [&b""[..], &b"\x00"[..], &b"\xff\x00\x80\x01postcard"[..]] {
                if bitwise_crc(p, probe) != (o.oneshot)(probe, a) {
                    return Err(format!("bitwise CRC and crc crate one-shot disagree for {}", p.name));
                }
            }
        }
    }
    Ok(())
}

fn le_bytes(v: u128, n: usize) -> Vec<u8> {
    v.to_le_bytes()[..n].to_vec()
}

#[derive(Clone, Debug, PartialEq, Eq, Serialize, Deserialize)]
pub enum Damage {
    None,
    /// flip one bit (bit index into the transmitted bytes, LSB of byte 0 is bit 0)
    BitFlip(usize),
    /// burst: xor `pattern` (first and last bit set, `len` bits) starting at wire-order bit `first`
    Burst {
        first: usize,
        len: u32,
        #[serde(with = "crate::shape::u128_str")]
        pattern: u128,
    },
    ByteSet { pos: usize, val: u8 },
    Multi(Vec<(usize, u8)>),
    Truncate(usize),
    /// a byte inserted before position `pos` (everything after shifts)
    Insert { pos: usize, val: u8 },
    /// the byte at `pos` lost
    Delete { pos: usize },
    /// `len` bytes starting at `pos` received twice
    Duplicate { pos: usize, len: usize },
    /// two bytes exchanged
    Swap { a: usize, b: usize },
    /// `junk` inserted between value and checksum, and the checksum replaced by the correct
    /// checksum of value ++ junk: a decoder that checks "the last W bytes against everything
    /// before them" instead of "the W bytes after the value against the value" accepts it
    AppendRechecksummed { junk: Vec<u8> },
}

#[derive(Clone, Debug, Serialize, Deserialize)]
pub enum DamagePlan {
    /// all single-bit flips, all truncations, `bursts` seeded burst patterns at every bit offset,
    /// `multi` seeded multi-byte damages
    Enumerate { seed: u64, bursts: u32, multi: u32 },
    /// for frames of kilobytes: bit flips in the first 16 and the last 64 bytes of the frame
    /// (checksum included), a dozen truncations, `multi` seeded other damages
    Reduced { seed: u64, multi: u32 },
    One(Damage),
}

#[derive(Clone, Debug, Serialize, Deserialize)]
pub struct C10Trace {
    pub msg: Msg,
    pub width: usize,
    pub alg: usize,
    pub suffix: Vec<u8>,
    pub plan: DamagePlan,
    /// decode into a target that borrows its strings and byte arrays from the input
    #[serde(default)]
    pub borrowed: bool,
}

mod p {
    pub const LENGTH_CHANGED_ACCEPTED: usize = 0;
    pub const BLOCK_TAKE_PAYLOAD: usize = 1;
    pub const OK_UNDER_DAMAGE: usize = 2;
    pub const CHECKSUM_BYTE15_DAMAGED: usize = 3;
    pub const REJECTED_BADCRC: usize = 4;
    pub const REJECTED_OTHER: usize = 5;
    pub const SUFFIX_ONLY_DAMAGE_ACCEPTED: usize = 6;
    pub const BURST_STRADDLES_PAYLOAD_CHECKSUM: usize = 7;
    pub const NONBYTE_WIDTH_ALG: usize = 8;
    pub const LARGE_FRAME: usize = 9;
    pub const BORROWING_TARGET: usize = 10;
    pub const NAMES: [&str; 11] = [
        "damaged_frame_accepted_with_different_consumed_length_and_matching_checksum",
        "payload_with_multi_byte_block_takes",
        "decode_ok_under_damage",
        "last_byte_of_16_byte_checksum_damaged",
        "rejected_with_bad_crc",
        "rejected_with_other_error",
        "suffix_only_damage_accepted",
        "burst_straddles_payload_and_checksum",
        "algorithm_width_not_a_multiple_of_8",
        "frame_of_512_bytes_to_64_KiB",
        "frames_decoded_into_a_target_that_borrows_from_the_input",
    ];
}

mod f {
    pub const BITFLIP_PAYLOAD: usize = 0;
    pub const BITFLIP_CHECKSUM: usize = 1;
    pub const BURST_PAYLOAD: usize = 2;
    pub const BURST_CHECKSUM: usize = 3;
    pub const BURST_STRADDLE: usize = 4;
    pub const TRUNCATE: usize = 5;
    pub const BYTESET: usize = 6;
    pub const MULTI: usize = 7;
    pub const BITFLIP_SUFFIX: usize = 8;
    pub const LENGTH_CHANGING: usize = 9;
    pub const SWAP: usize = 10;
    pub const RECHECKSUMMED: usize = 11;
    pub const NAMES: [&str; 12] = [
        "single_bit_flip_in_payload",
        "single_bit_flip_in_checksum",
        "burst_within_payload",
        "burst_within_checksum",
        "burst_straddling_payload_and_checksum",
        "truncation",
        "byte_overwrite",
        "multi_byte_damage",
        "single_bit_flip_in_suffix",
        "byte_inserted_deleted_or_duplicated",
        "two_bytes_swapped",
        "junk_after_the_value_with_checksum_recomputed_over_value_and_junk",
    ];
}

const X_FRAMES: usize = 0;
const X_DECODES_UNDER_DAMAGE: usize = 1;
const X_FAULT_FREE_CHECKS: usize = 2;

pub struct C10;

fn hexs(b: &[u8]) -> String {
    let mut s = String::new();
    for (i, x) in b.iter().enumerate() {
        if i >= 40 {
            s.push_str(&format!("…(+{})", b.len() - i));
            break;
        }
        s.push_str(&format!("{x:02x}"));
    }
    s
}

/// wire-order bit `i` of the byte stream: which (byte, mask)
#[inline]
fn wire_bit(i: usize, refin: bool) -> (usize, u8) {
    let byte = i / 8;
    let k = (i % 8) as u32;
    (byte, if refin { 1u8 << k } else { 0x80u8 >> k })
}

fn apply(x: &[u8], d: &Damage, refin: bool) -> Vec<u8> {
    let mut y = x.to_vec();
    match d {
        Damage::None => {}
        Damage::BitFlip(b) => {
            if b / 8 < y.len() {
                y[b / 8] ^= 1 << (b % 8);
            }
        }
        Damage::Burst { first, len, pattern } => {
            for j in 0..*len as usize {
                if pattern >> j & 1 == 1 {
                    let (byte, mask) = wire_bit(first + j, refin);
                    if byte < y.len() {
                        y[byte] ^= mask;
                    }
                }
            }
        }
        Damage::ByteSet { pos, val } => {
            if *pos < y.len() {
                y[*pos] = *val;
            }
        }
        Damage::Multi(v) => {
            for (pos, val) in v {
                if *pos < y.len() {
                    y[*pos] = *val;
                }
            }
        }
        Damage::Truncate(l) => y.truncate(*l),
        Damage::Insert { pos, val } => {
            let p = (*pos).min(y.len());
            y.insert(p, *val);
        }
        Damage::Delete { pos } => {
            if *pos < y.len() {
                y.remove(*pos);
            }
        }
        Damage::Duplicate { pos, len } => {
            if *pos < y.len() {
                let end = (pos + len).min(y.len());
                let dup: Vec<u8> = y[*pos..end].to_vec();
                let tail = y.split_off(end);
                y.extend_from_slice(&dup);
                y.extend_from_slice(&tail);
            }
        }
        Damage::Swap { a, b } => {
            if *a < y.len() && *b < y.len() {
                y.swap(*a, *b);
            }
        }
        Damage::AppendRechecksummed { .. } => {} // built by the caller, which knows the algorithm
    }
    y
}

struct Ctx<'a> {
    t: &'a C10Trace,
    o: &'static Ops,
    alg: &'static AlgParams,
    /// fault-free frame ++ suffix
    x0: Vec<u8>,
    plen: usize,
    flen: usize,
    kinds: u32,
}

/// One decode under one damage; the converse clause. Returns false on violation.
fn check_damaged(c: &Ctx, d: &Damage, out: &mut Outcome<C10Trace>) -> bool {
    let w = c.o.bytes;
    let x = match d {
        Damage::AppendRechecksummed { junk } => {
            let mut y = c.x0[..c.plen].to_vec();
            y.extend_from_slice(junk);
            let sum = bitwise_crc(c.alg, &y);
            y.extend_from_slice(&le_bytes(sum, w));
            y
        }
        _ => apply(&c.x0, d, c.alg.refin),
    };
    let changed_frame = x.len() < c.flen || x[..c.flen] != c.x0[..c.flen];
    out.evals += 1;
    out.extra[X_DECODES_UNDER_DAMAGE] += 1;
    let narrowed = || {
        let mut n = c.t.clone();
        n.plan = DamagePlan::One(d.clone());
        Some(n)
    };
    let key = |clause: &str| format!("CRC-{} {}", w * 8, clause);
    let r = (c.o.take)(&x, c.t.alg);
    let (code, kindcode) = match d {
        Damage::None => (0u64, 0u8),
        Damage::BitFlip(_) => (1, 1),
        Damage::Burst { .. } => (2, 2),
        Damage::ByteSet { .. } => (3, 3),
        Damage::Multi(_) => (4, 4),
        Damage::Truncate(_) => (5, 5),
        Damage::Insert { .. } => (6, 6),
        Damage::Delete { .. } => (7, 7),
        Damage::Duplicate { .. } => (8, 8),
        Damage::Swap { .. } => (9, 9),
        Damage::AppendRechecksummed { .. } => (10, 10),
    };
    out.ev(code, x.len() as u64, matches!(r, Ok(Ok(_))) as u64, || {
        format!(
            "wire {:?} -> take_from_bytes_crc{}({} bytes [{}]) -> {}",
            d,
            w * 8,
            x.len(),
            hexs(&x),
            match &r {
                Ok(Ok(t)) => format!("Ok(rem {} bytes)", t.rem),
                Ok(Err(e)) => format!("Err({e:?})"),
                Err(p) => format!("PANIC {p}"),
            }
        )
    });
    let mut outcome_ok = false;
    match r {
        Err(pmsg) => {
            out.fail(
                "C10",
                "no-panic",
                key("no-panic"),
                format!("take_from_bytes_crc{} panicked on a damaged frame ({d:?}): {pmsg}", w * 8),
                narrowed(),
            );
            return false;
        }
        Ok(Err(postcard::Error::DeserializeBadCrc)) => out.probe(p::REJECTED_BADCRC),
        Ok(Err(_)) => out.probe(p::REJECTED_OTHER),
        Ok(Ok(tk)) => {
            outcome_ok = true;
            if !tk.suffix || tk.rem + w > x.len() {
                out.fail(
                    "C10",
                    "converse",
                    key("converse"),
                    format!(
                        "decode succeeded on {} bytes but the returned remainder ({} bytes) is not a suffix leaving room for a {}-byte checksum",
                        x.len(),
                        tk.rem,
                        w
                    ),
                    narrowed(),
                );
                return false;
            }
            let k = x.len() - tk.rem - w;
            let want = le_bytes(bitwise_crc(c.alg, &x[..k]), w);
            if x[k..k + w] != want[..] {
                // label the case with the sub-clause of the statement it contradicts
                let label = if !changed_frame {
                    "undamaged frame"
                } else if x.len() >= c.flen && x[..c.plen] == c.x0[..c.plen] {
                    "corruption confined to the checksum was accepted"
                } else if x.len() < c.flen {
                    "truncated frame was accepted"
                } else if k == c.plen && matches!(d, Damage::BitFlip(_)) {
                    "single-bit corruption of the payload (decoded length unchanged) was accepted"
                } else if k == c.plen && matches!(d, Damage::Burst { .. }) {
                    "burst no longer than the CRC width in the payload (decoded length unchanged) was accepted"
                } else {
                    "damaged frame was accepted"
                };
                out.fail(
                    "C10",
                    "converse",
                    key("converse"),
                    format!(
                        "{label}: decode consumed {k} value bytes followed by [{}], but their {} checksum is [{}] (damage {d:?})",
                        hexs(&x[k..k + w]),
                        c.alg.name,
                        hexs(&want)
                    ),
                    narrowed(),
                );
                return false;
            }
            if changed_frame {
                out.probe(p::OK_UNDER_DAMAGE);
                if k != c.plen {
                    out.probe(p::LENGTH_CHANGED_ACCEPTED);
                }
            } else if *d != Damage::None {
                out.probe(p::SUFFIX_ONLY_DAMAGE_ACCEPTED);
            }
        }
    }
    // the entry point that does not return the remainder: `from_bytes_crc*`. Its consumed length
    // is not observable, so it is taken from the real slice path on the same bytes.
    out.evals += 1;
    match (c.o.from)(&x, c.t.alg) {
        Err(pmsg) => {
            out.fail(
                "C10",
                "no-panic",
                key("no-panic"),
                format!("from_bytes_crc{} panicked on a damaged frame ({d:?}): {pmsg}", w * 8),
                narrowed(),
            );
            return false;
        }
        Ok(Err(_)) => {}
        Ok(Ok(_)) => {
            let k = match sut::call(|| postcard::take_from_bytes::<DynOwned>(&x).map(|(_, rest)| x.len() - rest.len())) {
                Ok(Ok(k)) => Some(k),
                _ => None,
            };
            let ok = match k {
                Some(k) if k + w <= x.len() => x[k..k + w] == le_bytes(bitwise_crc(c.alg, &x[..k]), w)[..],
                _ => false,
            };
            if !ok {
                out.fail(
                    "C10",
                    "converse",
                    key("converse"),
                    format!(
                        "from_bytes_crc{} accepted {} bytes [{}] (damage {d:?}) although the bytes the value occupies ({:?}) are not followed by their {} checksum",
                        w * 8,
                        x.len(),
                        hexs(&x),
                        k,
                        c.alg.name
                    ),
                    narrowed(),
                );
                return false;
            }
        }
    }
    // fault accounting + signature
    let region = |bit_lo: usize, bit_hi: usize| -> u8 {
        let (pl, fl) = (c.plen * 8, c.flen * 8);
        if bit_hi <= pl {
            0
        } else if bit_lo >= pl && bit_hi <= fl {
            1
        } else if bit_lo >= fl {
            2
        } else {
            3
        }
    };
    let reg = match d {
        Damage::None => 2,
        Damage::BitFlip(b) => {
            let r = region(*b, b + 1);
            out.fault(match r {
                0 => f::BITFLIP_PAYLOAD,
                1 => f::BITFLIP_CHECKSUM,
                _ => f::BITFLIP_SUFFIX,
            });
            if w == 16 && b / 8 == c.flen - 1 {
                out.probe(p::CHECKSUM_BYTE15_DAMAGED);
            }
            r
        }
        Damage::Burst { first, len, .. } => {
            let r = region(*first, first + *len as usize);
            if r >= 2 {
                out.probe(p::BURST_STRADDLES_PAYLOAD_CHECKSUM);
            }
            out.fault(match r {
                0 => f::BURST_PAYLOAD,
                1 => f::BURST_CHECKSUM,
                _ => f::BURST_STRADDLE,
            });
            r
        }
        Damage::ByteSet { pos, .. } => {
            out.fault(f::BYTESET);
            region(pos * 8, pos * 8 + 8)
        }
        Damage::Multi(_) => {
            out.fault(f::MULTI);
            3
        }
        Damage::Truncate(_) => {
            out.fault(f::TRUNCATE);
            3
        }
        Damage::Insert { .. } | Damage::Delete { .. } | Damage::Duplicate { .. } => {
            out.fault(f::LENGTH_CHANGING);
            3
        }
        Damage::Swap { .. } => {
            out.fault(f::SWAP);
            3
        }
        Damage::AppendRechecksummed { .. } => {
            out.fault(f::RECHECKSUMMED);
            3
        }
    };
    if changed_frame {
        let mut s = Fnv::new();
        s.usize(w);
        s.usize(c.t.alg);
        s.byte(kindcode);
        s.byte(reg);
        s.byte(outcome_ok as u8);
        s.u64(c.kinds as u64);
        out.sigs.push(s.finish());
    }
    true
}

fn exec_c10(t: &C10Trace, out: &mut Outcome<C10Trace>) {
    BORROWED.with(|b| b.set(t.borrowed));
    BORROW_OUTSIDE.with(|f| f.set(false));
    exec_c10_inner(t, out);
    BORROWED.with(|b| b.set(false));
}

fn exec_c10_inner(t: &C10Trace, out: &mut Outcome<C10Trace>) {
    let o = match ops(t.width) {
        Some(o) => o,
        None => {
            out.skipped = Some("width_not_instantiated");
            return;
        }
    };
    if t.alg >= o.algs.len() {
        out.skipped = Some("algorithm_index_out_of_range");
        return;
    }
    let alg = &o.algs[t.alg];
    let w = o.bytes;
    if alg.width % 8 != 0 {
        out.probe(p::NONBYTE_WIDTH_ALG);
    }
    let m = &t.msg;
    let key = |clause: &str| format!("CRC-{} {}", w * 8, clause);
    // relative yardstick: the plain encoding
    let v = m.ser();
    let plain = match sut::call(|| postcard::to_allocvec(&v)) {
        Ok(Ok(p)) => p,
        _ => {
            out.skipped = Some("workload_unencodable");
            return;
        }
    };
    let large = plain.len() > 380;
    if large && !matches!(t.plan, DamagePlan::Reduced { .. } | DamagePlan::One(_)) {
        out.skipped = Some("payload_too_long");
        return;
    }
    if large {
        out.probe(p::LARGE_FRAME);
    }
    // the oracle agrees with the crc crate's one-shot API on this payload (else: harness error)
    let sum = bitwise_crc(alg, &plain);
    if sum != (o.oneshot)(&plain, t.alg) {
        eprintln!("harness error: bitwise CRC oracle and crc crate disagree for {}", alg.name);
        std::process::exit(2);
    }
    let mut frame = plain.clone();
    frame.extend_from_slice(&le_bytes(sum, w));
    out.extra[X_FRAMES] += 1;
    out.bytes += frame.len() as u64;
    shape::with_shape(&m.shape, || {
        let fault_free = matches!(
            t.plan,
            DamagePlan::Enumerate { .. } | DamagePlan::Reduced { .. } | DamagePlan::One(Damage::None)
        );
        if fault_free {
            // (a) every storage kind produces plain ++ le(checksum(plain))
            let a = (o.ser_alloc)(m, t.alg);
            let h = (o.ser_hvec)(m, t.alg);
            // exact fit, a little slack, and roomy buffers (code guarded by "plenty of room")
            let extras = [0usize, 1, 2, 8, 16, 24, 64, frame.len() + 3, 512];
            let cap = (frame.len() + extras[(t.suffix.len() + frame.len()) % extras.len()]).min(arena::RW);
            let (s, stray) = arena::with_arena(|ar| {
                ar.with_buf(cap, Place::End, |buf| (o.ser_slice)(m, t.alg, buf), |r| match r {
                    Ok(Ok((_, b))) => Some(b.len()),
                    _ => None,
                })
            });
            out.evals += 3;
            out.extra[X_FAULT_FREE_CHECKS] += 3;
            let s2 = s.map(|r| r.map(|(off, b)| if off == 0 { b } else { vec![] }));
            for (name, got) in [("allocvec", a), ("heapless", h), ("slice", s2)] {
                if name == "heapless" && frame.len() > 400 {
                    // does not fit the instantiated heapless::Vec<u8, 400>: must be refused
                    if !matches!(got, Ok(Err(postcard::Error::SerializeBufferFull))) {
                        out.fail(
                            "C10",
                            "frame-is-plain-plus-le-checksum",
                            key("frame"),
                            format!("a {}-byte frame into heapless::Vec<u8, 400> did not fail with SerializeBufferFull", frame.len()),
                            Some(C10Trace { plan: DamagePlan::One(Damage::None), ..t.clone() }),
                        );
                        return;
                    }
                    continue;
                }
                match got {
                    Ok(Ok(b)) if b == frame => {}
                    other => {
                        out.fail(
                            "C10",
                            "frame-is-plain-plus-le-checksum",
                            key("frame"),
                            format!(
                                "to_{name}_u{} produced {}, expected plain encoding ++ little-endian {} checksum = [{}]",
                                w * 8,
                                match &other {
                                    Ok(Ok(b)) => format!("[{}]", hexs(b)),
                                    Ok(Err(e)) => format!("Err({e:?})"),
                                    Err(p) => format!("PANIC {p}"),
                                },
                                alg.name,
                                hexs(&frame)
                            ),
                            Some(C10Trace { plan: DamagePlan::One(Damage::None), ..t.clone() }),
                        );
                        return;
                    }
                }
            }
            if stray.is_some() {
                out.fail(
                    "C10",
                    "frame-is-plain-plus-le-checksum",
                    key("frame"),
                    "CRC slice serialisation wrote outside the returned bytes".into(),
                    Some(C10Trace { plan: DamagePlan::One(Damage::None), ..t.clone() }),
                );
                return;
            }
            // (b) decoding the intact frame returns the value and the bytes after the checksum
            let mut x = frame.clone();
            x.extend_from_slice(&t.suffix);
            let vref = sut::call(|| postcard::from_bytes::<DynOwned>(&plain).map(|d| d.0));
            let vref = match vref {
                Ok(Ok(v)) => v,
                _ => {
                    out.skipped = Some("plain_decode_of_workload_failed");
                    return;
                }
            };
            let tk = (o.take)(&x, t.alg);
            // `from_bytes_crc*` returns no remainder: the statement's "decoding of it" is the
            // frame itself, so it is given exactly the frame (what it does with bytes after the
            // checksum is only judged by the converse clause, under `AppendRechecksummed` below)
            let take_borrow_outside = BORROW_OUTSIDE.with(|f| f.replace(false));
            let fr = (o.from)(&frame, t.alg);
            let borrow_outside = take_borrow_outside || BORROW_OUTSIDE.with(|f| f.replace(false));
            if t.borrowed {
                out.probe(p::BORROWING_TARGET);
                if borrow_outside && matches!((&tk, &fr), (Ok(Ok(_)), Ok(Ok(_)))) {
                    out.fail(
                        "C10",
                        "intact-frame-decodes",
                        key("intact"),
                        "a string or byte array borrowed by the decoded value does not lie inside the input frame".to_string(),
                        Some(C10Trace { plan: DamagePlan::One(Damage::None), ..t.clone() }),
                    );
                    return;
                }
            }
            out.evals += 2;
            out.extra[X_FAULT_FREE_CHECKS] += 2;
            let ok = match (&tk, &fr) {
                (Ok(Ok(tk)), Ok(Ok(fv))) => {
                    tk.val == vref && *fv == vref && tk.suffix && tk.rem == t.suffix.len()
                }
                _ => false,
            };
            if !ok {
                out.fail(
                    "C10",
                    "intact-frame-decodes",
                    key("intact"),
                    format!(
                        "intact frame [{}] + {} suffix bytes: take -> {}, from -> {}; expected the value and exactly the suffix",
                        hexs(&frame),
                        t.suffix.len(),
                        match &tk {
                            Ok(Ok(t)) => format!("Ok(value {}, rem {} bytes, suffix={})", if t.val == vref { "equal" } else { "DIFFERENT" }, t.rem, t.suffix),
                            Ok(Err(e)) => format!("Err({e:?})"),
                            Err(p) => format!("PANIC {p}"),
                        },
                        match &fr {
                            Ok(Ok(v)) => format!("Ok({})", if *v == vref { "equal" } else { "DIFFERENT" }),
                            Ok(Err(e)) => format!("Err({e:?})"),
                            Err(p) => format!("PANIC {p}"),
                        }
                    ),
                    Some(C10Trace { plan: DamagePlan::One(Damage::None), ..t.clone() }),
                );
                return;
            }
            // the u32 convenience wrappers at crate root are the same functions
            if w == 4 {
                let v = m.ser();
                let r = sut::call(|| {
                    let a = postcard::to_allocvec_crc32(&v, w32::CRCS[t.alg].digest())?;
                    let b = postcard::to_stdvec_crc32(&v, w32::CRCS[t.alg].digest())?;
                    // (a frame longer than 400 bytes does not fit this heapless instantiation)
                    let c = if frame.len() <= 400 {
                        postcard::to_vec_crc32::<_, 400>(&v, w32::CRCS[t.alg].digest())?.to_vec()
                    } else {
                        frame.clone()
                    };
                    let mut buf = vec![0u8; frame.len()];
                    let d = postcard::to_slice_crc32(&v, &mut buf, w32::CRCS[t.alg].digest())?.to_vec();
                    let e = postcard::from_bytes_crc32::<DynOwned>(&frame, w32::CRCS[t.alg].digest())?.0;
                    let (f, rem) = postcard::take_from_bytes_crc32::<DynOwned>(&x, w32::CRCS[t.alg].digest())?;
                    Ok::<_, postcard::Error>((a, b, c, d, e, f.0, rem.len()))
                });
                out.evals += 6;
                match r {
                    Ok(Ok((a, b, c, d, e, f, rem)))
                        if a == frame && b == frame && c == frame && d == frame && e == vref && f == vref && rem == t.suffix.len() => {}
                    other => {
                        out.fail(
                            "C10",
                            "frame-is-plain-plus-le-checksum",
                            key("frame"),
                            format!("a crc32 convenience wrapper disagrees with the frame [{}]: {:?}", hexs(&frame), other.map(|r| r.map(|_| "Ok(..)"))),
                            Some(C10Trace { plan: DamagePlan::One(Damage::None), ..t.clone() }),
                        );
                        return;
                    }
                }
            }
        }
        if shape::Shape::kinds(&m.shape) & (shape::K_STR | shape::K_BYTES | shape::K_FLOAT | shape::K_CHAR | shape::K_DISPLAY) != 0 {
            out.probe(p::BLOCK_TAKE_PAYLOAD);
        }
        let mut x0 = frame.clone();
        x0.extend_from_slice(&t.suffix);
        let c = Ctx { t, o, alg, x0, plen: plain.len(), flen: frame.len(), kinds: m.shape.kinds() };
        match &t.plan {
            DamagePlan::One(d) => {
                if *d != Damage::None {
                    check_damaged(&c, d, out);
                }
            }
            DamagePlan::Reduced { seed, multi } => {
                let fb = c.flen * 8;
                let bits: Vec<usize> = (0..128.min(fb)).chain(fb.saturating_sub(512)..fb).collect();
                for b in bits {
                    if !check_damaged(&c, &Damage::BitFlip(b), out) {
                        return;
                    }
                }
                let n = c.x0.len();
                for l in [0, 1, c.plen / 2, c.plen.saturating_sub(1), c.plen, c.plen + 1, c.flen.saturating_sub(1), c.flen] {
                    if l < n && !check_damaged(&c, &Damage::Truncate(l), out) {
                        return;
                    }
                }
                let mut rng = Rng::new(*seed);
                for _ in 0..*multi {
                    let d = match rng.below(5) {
                        0 => Damage::ByteSet { pos: rng.usize_below(n), val: rng.next() as u8 },
                        1 => Damage::Insert { pos: rng.usize_below(n + 1), val: rng.next() as u8 },
                        2 => Damage::Delete { pos: rng.usize_below(n) },
                        3 => Damage::Swap { a: rng.usize_below(n), b: rng.usize_below(n) },
                        _ => Damage::Burst {
                            first: rng.usize_below(fb.saturating_sub(alg.width as usize).max(1)),
                            len: alg.width.max(2),
                            pattern: 1 | (1u128 << (alg.width.max(2) - 1)) | (rng.u128() & ((1u128 << (alg.width.max(2) - 1)) - 1)),
                        },
                    };
                    if apply(&c.x0, &d, alg.refin) == c.x0 {
                        continue;
                    }
                    if !check_damaged(&c, &d, out) {
                        return;
                    }
                }
            }
            DamagePlan::Enumerate { seed, bursts, multi } => {
                let total_bits = c.x0.len() * 8;
                // every single-bit flip of frame and suffix
                for b in 0..total_bits {
                    if !check_damaged(&c, &Damage::BitFlip(b), out) {
                        return;
                    }
                }
                // every truncation
                for l in 0..c.x0.len() {
                    if !check_damaged(&c, &Damage::Truncate(l), out) {
                        return;
                    }
                }
                // seeded burst patterns (first and last bit set, length 2..=alg.width) at every
                // bit offset of the frame
                let mut rng = Rng::new(*seed);
                let frame_bits = c.flen * 8;
                for bi in 0..*bursts {
                    let len = match bi {
                        0 => alg.width,                       // the widest detectable burst
                        1 => 2,
                        2 => alg.width.min(8),
                        _ => rng.range(2, alg.width as usize) as u32,
                    }
                    .max(2)
                    .min(alg.width.max(2));
                    let mut pattern: u128 = 1 | (1u128 << (len - 1));
                    if len > 2 {
                        let interior = rng.u128() & ((1u128 << (len - 1)) - 1) & !1u128;
                        pattern |= match bi % 4 {
                            0 => interior,
                            1 => 0,
                            2 => ((1u128 << (len - 1)) - 1) & !1u128,
                            _ => interior & rng.u128(),
                        };
                    }
                    if alg.width < 2 {
                        continue;
                    }
                    for first in 0..frame_bits.saturating_sub(len as usize - 1) {
                        if !check_damaged(&c, &Damage::Burst { first, len, pattern }, out) {
                            return;
                        }
                    }
                }
                // junk between value and checksum, checksum recomputed over both
                for k in [1usize, 2, w, w + 1, 7] {
                    let junk: Vec<u8> = (0..k).map(|_| rng.next() as u8).collect();
                    if !check_damaged(&c, &Damage::AppendRechecksummed { junk }, out) {
                        return;
                    }
                }
                // seeded byte overwrites and multi-byte damage
                for _ in 0..*multi {
                    let n = c.x0.len();
                    if n == 0 {
                        break;
                    }
                    let d = match rng.below(7) {
                        0 | 1 => Damage::ByteSet { pos: rng.usize_below(n), val: rng.next() as u8 },
                        2 => Damage::Insert { pos: rng.usize_below(n + 1), val: rng.next() as u8 },
                        3 => Damage::Delete { pos: rng.usize_below(n) },
                        4 => Damage::Duplicate { pos: rng.usize_below(n), len: rng.range(1, 4) },
                        5 => Damage::Swap { a: rng.usize_below(n), b: rng.usize_below(n) },
                        _ => {
                            let k = rng.range(2, 6);
                            Damage::Multi((0..k).map(|_| (rng.usize_below(n), rng.next() as u8)).collect())
                        }
                    };
                    if apply(&c.x0, &d, alg.refin) == c.x0 {
                        continue;
                    }
                    if !check_damaged(&c, &d, out) {
                        return;
                    }
                }
            }
        }
    });
}

impl Scenario for C10 {
    type Trace = C10Trace;
    const ID: &'static str = "C10";
    const TAG: u64 = 0xC10;
    const LEVEL: &'static str = "fault_enumeration";
    fn probe_names() -> &'static [&'static str] {
        &p::NAMES
    }
    fn fault_names() -> &'static [&'static str] {
        &f::NAMES
    }
    fn extra_names() -> &'static [&'static str] {
        &["frames", "decodes_under_damage", "fault_free_checks"]
    }
    fn default_runs(tier: Tier) -> u64 {
        match tier {
            Tier::Quick => 40_000,
            Tier::Thorough => 300_000,
        }
    }
    fn gen(rng: &mut Rng, tier: Tier, _run: u64) -> C10Trace {
        let width = *rng.pick(&WIDTHS);
        let o = ops(width).unwrap();
        let alg = rng.usize_below(o.algs.len());
        let budget = match rng.below(10) {
            0 => 300,
            1 | 2 => 80,
            _ => 20,
        };
        let cfg = GenCfg::swarm(rng, budget);
        let msg = Msg::gen_fitting(rng, &cfg, budget);
        let suffix = match rng.below(4) {
            0 => vec![],
            1 => vec![0],
            _ => {
                let n = rng.range(1, 6);
                rng.bytes(n)
            }
        };
        let bursts = match tier {
            Tier::Quick => 16,
            Tier::Thorough => 64,
        };
        // now and then one long block, so that bulk paths of the CRC flavours (ser and de) are hashed
        if rng.chance(1, 250) && !crate::runner::small() {
            let n = *rng.pick(&[512usize, 513, 1000, 4096, 4097, 65535, 65536]);
            let data: Vec<u8> = (0..n).map(|i| (i as u8).wrapping_mul(37).wrapping_add(11)).collect();
            let msg = match rng.below(3) {
                0 => Msg { shape: shape::Shape::Bytes, val: Val::Bytes(data) },
                1 => Msg { shape: shape::Shape::Str, val: Val::Str(data.iter().map(|b| (b'a' + b % 26) as char).collect()) },
                _ => Msg {
                    shape: shape::Shape::Tuple(vec![shape::Shape::F64, shape::Shape::Bytes, shape::Shape::Str, shape::Shape::U8]),
                    val: Val::Seq(vec![Val::F64(1), Val::Bytes(data), Val::Str("abc".into()), Val::Uint(9)]),
                },
            };
            return C10Trace { msg, width, alg, suffix, plan: DamagePlan::Reduced { seed: rng.next(), multi: 24 }, borrowed: rng.chance(1, 3) };
        }
        C10Trace {
            msg,
            width,
            alg,
            suffix,
            plan: DamagePlan::Enumerate { seed: rng.next(), bursts, multi: 32 },
            borrowed: rng.chance(1, 3),
        }
    }
    fn exec(t: &C10Trace, out: &mut Outcome<C10Trace>) {
        exec_c10(t, out)
    }
    fn shrink(t: &C10Trace) -> Vec<C10Trace> {
        let mut v = Vec::new();
        if !t.suffix.is_empty() {
            let mut c = t.clone();
            c.suffix.clear();
            v.push(c);
        }
        if t.alg > 0 {
            let mut c = t.clone();
            c.alg = 0;
            v.push(c);
        }
        if t.borrowed {
            let mut c = t.clone();
            c.borrowed = false;
            v.push(c);
        }
        // a shrunk message has another frame: search all damages again
        let enumerate = DamagePlan::Enumerate { seed: 1, bursts: 8, multi: 8 };
        for m in shape::shrink_msg(&t.msg) {
            let plan = match &t.plan {
                DamagePlan::One(Damage::None) => DamagePlan::One(Damage::None),
                _ if m.ref_encode().len() > 380 => DamagePlan::Reduced { seed: 1, multi: 8 },
                _ => enumerate.clone(),
            };
            v.push(C10Trace { msg: m, plan, ..t.clone() });
        }
        if let DamagePlan::One(Damage::Multi(ds)) = &t.plan {
            for i in 0..ds.len() {
                let mut d2 = ds.clone();
                d2.remove(i);
                let mut c = t.clone();
                c.plan = DamagePlan::One(Damage::Multi(d2));
                v.push(c);
            }
        }
        v
    }
    fn rule() -> &'static str {
        "one case = one frame (value x checksum width 8/16/32/64/128 x catalogue algorithm, produced by the real CRC serialiser into slice, heapless and growable storage) with the wire damage enumerated completely per frame: every single-bit flip of frame and suffix, every truncation length, 16 (thorough: 64) seeded burst patterns of length 2..=algorithm width at every bit offset in the algorithm's bit order, plus 32 seeded byte overwrites, multi-byte damages, insertions, deletions, duplications and swaps. evaluations = real CRC (de)serialiser calls checked. distinct_nontrivial counts distinct (width, algorithm, damage kind, region hit {payload, checksum, suffix, straddling}, accepted/rejected, set of kinds in the shape) over damages that changed at least one bit of payload or checksum."
    }
    fn real_components() -> &'static [&'static str] {
        &[
            "postcard::ser_flavors::crc::{CrcModifier, to_slice_u8..u128, to_vec_u8..u128, to_allocvec_u8..u128}",
            "postcard::de_flavors::crc::{CrcModifier, from_bytes_u8..u128, take_from_bytes_u8..u128}",
            "postcard::{to_slice_crc32, to_vec_crc32, to_allocvec_crc32, to_stdvec_crc32, from_bytes_crc32, take_from_bytes_crc32}",
            "postcard::Serializer / Deserializer, ser/de Slice flavours, crc 3.4 Digest (incremental API)",
        ]
    }
    fn simulated_components() -> &'static [&'static str] {
        &[
            "the wire between sender and receiver: bit flips, bursts, byte overwrites, truncation (enumerated / seeded)",
            "the checksum oracle: a bitwise Rocksoft-model CRC in the harness, validated at start-up against every algorithm's catalogue check value and against the crc crate's one-shot API",
        ]
    }
    fn assumptions() -> Vec<String> {
        vec![
            "Under damage the only alarm is the converse clause: whenever CRC-checked decoding succeeds, the bytes consumed for the value are followed by their correct checksum (computed by the harness's own bitwise CRC). The statement's corollaries (checksum-only damage, single-bit / burst <= width with unchanged length, truncation) are used as labels of a failing case, never as separate assertions, because a short CRC can legitimately match by chance when the decoded length changes.".into(),
            "Payload yardstick is the real plain encoding (to_allocvec) and plain decoding (from_bytes) of the same value, as the statement says.".into(),
            "Algorithms: 6 for u8, 6 for u16, 6 for u32, 4 for u64, CRC-82/DARC and two full-width 128-bit parameter sets for u128, including widths that are not a multiple of 8 (CRC-5/7/12/15/24/31/40).".into(),
            "Payloads are at most 380 bytes with the complete damage enumeration; one frame in 250 carries a block of 512 bytes to 64 KiB with a reduced damage set (bit flips in the first 16 and last 64 bytes, a dozen truncations, 24 seeded damages).".into(),
        ]
    }
}
