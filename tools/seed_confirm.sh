#!/bin/bash
# usage: seed_confirm.sh <worktree> <mutant-dir-name> <seed-id> <property> [demo features]
# 1. in the scratch worktree: apply patch -> existing suite passes, demo fails; revert -> demo passes
# 2. apply to /repo, run all five quick checks (no evidence), undo
# 3. store under /verif/seeded/<seed-id>/
set -u
wt="$1"; m="$2"; sid="$3"; prop="$4"; feats="${5:-use-std}"
md="$wt/mutants/$m"
[ -f "$md/patch.diff" ] || { echo "no patch"; exit 2; }
cd "$wt" || exit 2
git checkout -q -- source 2>/dev/null; git checkout -q --detach $(git -C /repo rev-parse HEAD) 2>/dev/null
git apply --check "$md/patch.diff" || { echo "patch does not apply"; exit 2; }
git clean -fdq source/postcard/tests
git apply "$md/patch.diff"
suite=$(cargo test --workspace --no-fail-fast --offline 2>&1 | grep -E "^test result" | awk '{p+=$4; f+=$6} END {print p" passed "f" failed"}')
cp "$md/demo.rs" "source/postcard/tests/seed_demo.rs"
demo_with=$(cargo test --offline -p postcard --features "$feats" --test seed_demo 2>&1 | grep -E "^test result" | tail -1)
git checkout -q -- source
demo_without=$(cargo test --offline -p postcard --features "$feats" --test seed_demo 2>&1 | grep -E "^test result" | tail -1)
rm -f source/postcard/tests/seed_demo.rs
echo "suite with mutant: $suite"
echo "demo with mutant:    $demo_with"
echo "demo without mutant: $demo_without"
cd /repo || exit 2
[ -z "$(git status --porcelain)" ] || { echo "/repo not clean"; exit 2; }
git apply "$md/patch.diff" || exit 2
results=""
for id in C05 C08 C09 C10 C11; do
  out=$(/verif/check $id quick --no-evidence --replay-dir /tmp/mutreplays 2>&1); rc=$?
  line=$(echo "$out" | grep -E '^minimised' | head -1 | cut -c1-300)
  echo "  $id exit=$rc $line"
  results="$results $id=$rc"
done
git checkout -- .
mkdir -p /verif/seeded/$sid
cp "$md/patch.diff" /verif/seeded/$sid/patch.diff
cp "$md/demo.rs" /verif/seeded/$sid/demo.rs
[ -f "$md/NOTES.md" ] && cp "$md/NOTES.md" /verif/seeded/$sid/NOTES.md
python3 - "$sid" "$prop" "$suite" "$demo_with" "$demo_without" "$results" "$feats" <<'PY'
import json,sys
sid,prop,suite,dw,dwo,res,feats=sys.argv[1:8]
checks={k:int(v) for k,v in (x.split('=') for x in res.split())}
meta={"seed_id":sid,"breaks_property":prop,"source":"independent sub-agent given only the property text and a scratch worktree",
 "needs_to_manifest":"see NOTES.md",
 "confirmed_in_scratch_worktree":{"existing_suite_with_change":suite,"demo_with_change":dw,"demo_without_change":dwo,"demo_features":feats},
 "quick_checks_exit_codes_with_change_applied_to_repo":checks,
 "caught_by":[k for k,v in checks.items() if v==1],
 "procedure":"git -C /repo apply patch.diff; ./check <ID> quick --no-evidence; git -C /repo checkout -- ."}
json.dump(meta,open(f'/verif/seeded/{sid}/meta.json','w'),indent=1)
print(json.dumps(meta["caught_by"]))
PY
