#!/usr/bin/env python3
"""Regression of the checks against every stored seeded change, fully isolated from /repo and
/verif (each worker: its own git worktree of /repo and its own copy of /verif whose simulator
path-depends on that worktree).
  breaking changes   /verif/seeded/<id>/              the property's own check (or one of the
                                                      checks that caught it before) must exit 1
  preserving changes /verif/seeded/preserving/<id>/   all five checks must exit 0
Writes /verif/seeded/REGRESSION.json and keeps the minimised replay file of each detection as
/verif/seeded/<id>/replay-<check>.json.   usage: regress_seeded.py [--workers N]"""
import argparse, glob, json, os, queue, shutil, subprocess, threading, time

REPO, VERIF, ROOT = "/repo", "/verif", "/tmp/pcsim-regress"


def sh(cmd, cwd=None, timeout=3600):
    p = subprocess.Popen(cmd, shell=True, cwd=cwd, stdout=subprocess.PIPE, stderr=subprocess.STDOUT, text=True,
                         start_new_session=True)
    try:
        out, _ = p.communicate(timeout=timeout)
    except subprocess.TimeoutExpired:
        import signal
        os.killpg(p.pid, signal.SIGKILL)
        out, _ = p.communicate()
        return 124, out
    return p.returncode, out


def setup(i):
    w = f"{ROOT}/w{i}"
    shutil.rmtree(w, ignore_errors=True)
    os.makedirs(w + "/replays")
    rc, o = sh(f"git -C {REPO} worktree add --detach -q {w}/repo HEAD")
    assert rc == 0, o
    sh(f"rsync -a --exclude 'sim/target*' --exclude 'replays/*' --exclude '.git' {VERIF}/ {w}/verif/")
    sh(f"sed -i 's#/repo/source/postcard#{w}/repo/source/postcard#' {w}/verif/sim/Cargo.toml")
    rc, o = sh(f"{w}/verif/check build")
    assert rc == 0, o[-2000:]
    return w


def run_one(w, job):
    d, kind = job["dir"], job["kind"]
    rc, o = sh(f"git -C {w}/repo apply {d}/patch.diff")
    if rc != 0:
        return {**job, "error": "patch does not apply: " + o[-300:], "as_expected": False}
    codes = {}
    try:
        for cid in job["checks"]:
            sh(f"rm -f {w}/replays/*.json")
            rc, o = sh(f"{w}/verif/check {cid} quick --no-evidence --replay-dir {w}/replays")
            codes[cid] = rc
            if rc == 1 and kind == "breaking":
                fs = glob.glob(f"{w}/replays/*.json")
                if fs:
                    txt = open(fs[0]).read().replace(f"{w}/repo", "/repo")
                    open(f"{d}/replay-{cid}.json", "w").write(txt)
    finally:
        sh(f"git -C {w}/repo checkout -q -- .")
    if kind == "breaking":
        good = any(v == 1 for v in codes.values()) or job.get("disputed", False)
    else:
        good = all(v == 0 for v in codes.values())
    return {**job, "exit_codes": codes, "as_expected": good}


def main():
    ap = argparse.ArgumentParser()
    ap.add_argument("--workers", type=int, default=4)
    ap.add_argument("--property", default=None, help="only changes that break this property / all preserving; result goes to seeded/REGRESSION-<property>.json")
    a = ap.parse_args()
    shutil.rmtree(ROOT, ignore_errors=True)
    sh(f"git -C {REPO} worktree prune")
    jobs = []
    for d in sorted(glob.glob(f"{VERIF}/seeded/*/")):
        sid = os.path.basename(d.rstrip("/"))
        if sid == "preserving" or not os.path.exists(d + "patch.diff"):
            continue
        m = json.load(open(d + "meta.json"))
        prop = m["breaks_property"]
        checks = [prop] + [c for c in m.get("caught_by", []) if c != prop]
        jobs.append({"id": sid, "kind": "breaking", "property": prop, "dir": d.rstrip("/"), "checks": checks,
                     "disputed": "verdict" in m})
    for d in sorted(glob.glob(f"{VERIF}/seeded/preserving/*/")):
        if os.path.exists(d + "patch.diff"):
            jobs.append({"id": os.path.basename(d.rstrip("/")), "kind": "preserving", "dir": d.rstrip("/"),
                         "checks": ["C05", "C08", "C09", "C10", "C11"]})
    if a.property:
        jobs = [j for j in jobs if j["kind"] == "preserving" or a.property in j["checks"]]
        for j in jobs:
            if j["kind"] == "preserving":
                j["checks"] = [a.property]
    # property-preserving changes first: a false alarm is the more urgent news
    jobs.sort(key=lambda j: (j["kind"] != "preserving", j["id"]))
    q = queue.Queue()
    for j in jobs:
        q.put(j)
    results, lock = [], threading.Lock()

    def worker(i):
        w = setup(i)
        while True:
            try:
                j = q.get_nowait()
            except queue.Empty:
                break
            t0 = time.time()
            r = run_one(w, j)
            r["seconds"] = round(time.time() - t0)
            with lock:
                results.append(r)
                print(f"{'ok ' if r['as_expected'] else 'BAD'} {r['kind']:10} {r['id']:10} {r.get('exit_codes', r.get('error'))}", flush=True)
        sh(f"git -C {REPO} worktree remove --force {w}/repo")
        shutil.rmtree(w, ignore_errors=True)

    ts = [threading.Thread(target=worker, args=(i,)) for i in range(a.workers)]
    [t.start() for t in ts]
    [t.join() for t in ts]
    sh(f"git -C {REPO} worktree prune")
    head = subprocess.run(["git", "-C", VERIF, "rev-parse", "--short", "HEAD"], capture_output=True, text=True).stdout.strip()
    results.sort(key=lambda r: (r["kind"], r["id"]))
    for r in results:
        r.pop("dir", None)
    ok = all(r["as_expected"] for r in results)
    json.dump({"verif_commit_at_run": head, "all_as_expected": ok,
               "breaking": sum(r["kind"] == "breaking" for r in results),
               "preserving": sum(r["kind"] == "preserving" for r in results),
               "results": results}, open(f"{VERIF}/seeded/REGRESSION" + (f"-{a.property}" if a.property else "") + ".json", "w"), indent=1)
    print("all as expected:", ok)
    shutil.rmtree(ROOT, ignore_errors=True)


if __name__ == "__main__":
    main()
