#!/bin/bash
# Regression of the checks against every stored seeded change, fully isolated from /repo and /verif:
# a scratch git worktree of /repo and a copy of /verif whose simulator path-depends on that worktree.
#   breaking changes  (/verif/seeded/<id>/)            : the property's own check must exit 1
#   preserving changes(/verif/seeded/preserving/<id>/) : all five checks must exit 0
# Writes /verif/seeded/REGRESSION.json and copies the minimised replay file of each detection to
# /verif/seeded/<id>/replay-<check>.json. Scratch directory is removed at the end.
set -u
W=${W:-/tmp/pcsim-regress}
rm -rf "$W"; mkdir -p "$W/replays"
git -C /repo worktree prune
git -C /repo worktree add --detach -q "$W/repo" HEAD || exit 2
rsync -a --exclude 'sim/target*' --exclude 'replays/*' --exclude '.git' /verif/ "$W/verif/"
sed -i "s#/repo/source/postcard#$W/repo/source/postcard#" "$W/verif/sim/Cargo.toml"
"$W/verif/check" build || { echo "build failed"; exit 2; }
res="$W/results.jsonl"; : > "$res"
run_checks() { # $1 = id label, $2.. = checks ; echo "ID=rc ..."
  local label="$1"; shift; local out=""
  for id in "$@"; do
    rm -f "$W/replays/"*.json
    o=$("$W/verif/check" $id quick --no-evidence --replay-dir "$W/replays" 2>&1); rc=$?
    out="$out $id=$rc"
    if [ $rc -eq 1 ] && [ -d "/verif/seeded/$label" ]; then
      f=$(ls "$W/replays/"*.json 2>/dev/null | head -1)
      [ -n "$f" ] && sed "s#$W/repo#/repo#g" "$f" > "/verif/seeded/$label/replay-$id.json"
    fi
  done
  echo "$out"
}
for d in /verif/seeded/*/; do
  sid=$(basename "$d"); [ "$sid" = preserving ] && continue
  [ -f "$d/patch.diff" ] || continue
  prop=$(python3 -c "import json;print(json.load(open('$d/meta.json'))['breaks_property'])")
  git -C "$W/repo" apply "$d/patch.diff" || { echo "$sid: patch failed"; continue; }
  extra=$(python3 -c "import json;print(' '.join(x for x in json.load(open('$d/meta.json')).get('caught_by',[]) if x!='$prop'))")
  r=$(run_checks "$sid" $prop $extra)
  git -C "$W/repo" checkout -q -- .
  echo "$sid ($prop):$r"
  echo "{\"id\":\"$sid\",\"kind\":\"breaking\",\"property\":\"$prop\",\"results\":\"$r\"}" >> "$res"
done
for d in /verif/seeded/preserving/*/; do
  sid=$(basename "$d")
  [ -f "$d/patch.diff" ] || continue
  git -C "$W/repo" apply "$d/patch.diff" || { echo "$sid: patch failed"; continue; }
  r=$(run_checks "preserving/$sid" C05 C08 C09 C10 C11)
  git -C "$W/repo" checkout -q -- .
  echo "preserving/$sid:$r"
  echo "{\"id\":\"$sid\",\"kind\":\"preserving\",\"results\":\"$r\"}" >> "$res"
done
python3 - "$res" <<'PY'
import json,sys,subprocess
rows=[json.loads(l) for l in open(sys.argv[1])]
out=[];ok=True
for r in rows:
    checks={k:int(v) for k,v in (x.split('=') for x in r['results'].split())}
    if r['kind']=='breaking':
        meta=json.load(open(f"/verif/seeded/{r['id']}/meta.json"))
        disputed='verdict' in meta
        good = checks.get(r['property'])==1 or any(v==1 for v in checks.values()) or disputed
    else:
        good = all(v==0 for v in checks.values())
    ok &= good
    out.append({**{k:r[k] for k in r if k!='results'},"exit_codes":checks,"as_expected":good})
head=subprocess.run(["git","-C","/verif","rev-parse","--short","HEAD"],capture_output=True,text=True).stdout.strip()
json.dump({"verif_commit_at_run":head,"all_as_expected":ok,"results":out},open('/verif/seeded/REGRESSION.json','w'),indent=1)
print("all as expected:",ok)
PY
git -C /repo worktree remove --force "$W/repo"
rm -rf "$W"
