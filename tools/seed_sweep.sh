#!/bin/bash
# runs every check at the quick tier under many VERIF_SEED values on the current tree; any exit != 0
# is printed (a false alarm on the unchanged tree, or a real finding)
cd "$(dirname "$0")/.."
./check build || exit 2
N=${1:-40}
bad=0
for id in C05 C08 C09 C10 C11; do
  for s in $(seq 1 $N); do
    out=$(VERIF_SEED=$((s*7919+13)) ./check $id quick --no-evidence --replay-dir /tmp/sweep-replays 2>&1); rc=$?
    if [ $rc -ne 0 ]; then bad=1; echo "ALARM $id seed=$((s*7919+13)) exit=$rc"; echo "$out" | grep -E "^(violation|minimised|VIOLATION|harness|KNOWN)" | head -5; fi
  done
  echo "$id: $N seeds done"
done
[ $bad -eq 0 ] && echo "seed sweep: no alarm on this tree"
