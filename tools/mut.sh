#!/bin/bash
# usage: tools_mut.sh <file-relative-to-repo> <python-replace-old> <python-replace-new> <check ids...>
# applies a textual mutant to /repo, runs the named checks (no evidence), restores /repo
f="$1"; old="$2"; new="$3"; shift 3
cd /repo || exit 2
python3 - "$f" "$old" "$new" <<'PY'
import sys
p,old,new=sys.argv[1:4]
s=open(p).read()
assert s.count(old)>=1, "pattern not found"
s=s.replace(old,new,1)
open(p,'w').write(s)
PY
[ $? -eq 0 ] || { git checkout -- .; exit 2; }
git diff --stat | tail -1
for id in "$@"; do
  out=$(/verif/check $id quick --no-evidence --replay-dir /tmp/mutreplays 2>&1); rc=$?
  echo "  $id exit=$rc $(echo "$out" | grep -E '^(VIOLATION|minimised|harness error)' | head -3 | cut -c1-400)"
done
git checkout -- .
