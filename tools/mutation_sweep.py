#!/usr/bin/env python3
"""Systematic sensitivity measurement: first-order mutants of the code the claimed properties are
anchored in, each run (1) against the repository's own test suite and, if it survives that,
(2) against the quick checks of /verif. Fully isolated: every worker has its own git worktree of
/repo and its own copy of /verif whose simulator path-depends on that worktree.

usage: mutation_sweep.py [--workers N] [--limit K] [--out FILE] [--only FILE_SUBSTR]

Output: JSON lines, one per mutant:
  status = uncompilable | killed_by_suite | detected | survived | harness_error
'survived' mutants need a human verdict: property-preserving (equivalent or unconstrained
behaviour) or a gap in the checks. Triage is recorded in /verif/seeded/MUTATION_SWEEP.md.
"""
import argparse, json, os, re, shutil, subprocess, sys, threading, queue, time

REPO = "/repo"
VERIF = "/verif"
ROOT = "/tmp/pcsim-mut"
SRC = "source/postcard/src"

# (file, first line, last line, checks to run) — 1-based inclusive line ranges of non-test code
REGIONS = [
    ("accumulator.rs", 99, 183, ["C08", "C09"]),
    ("ser/flavors.rs", 139, 251, ["C05", "C10", "C11"]),   # Slice, ExtendFlavor
    ("ser/flavors.rs", 255, 357, ["C11"]),                  # eio / io WriteFlavor
    ("ser/flavors.rs", 359, 420, ["C05", "C10"]),           # HVec
    ("ser/flavors.rs", 430, 491, ["C05", "C10"]),           # AllocVec
    ("ser/flavors.rs", 508, 560, ["C05"]),                  # Cobs
    ("ser/flavors.rs", 576, 686, ["C05", "C10"]),           # CRC ser
    ("ser/flavors.rs", 699, 722, ["C05"]),                  # Size
    ("ser/mod.rs", 476, 495, ["C05", "C10", "C11"]),        # serialize_with_flavor, serialized_size
    ("ser/serializer.rs", 86, 390, ["C05", "C11"]),         # emitters: every storage failure -> error
    ("de/flavors.rs", 130, 190, ["C08", "C10", "C11"]),     # de Slice
    ("de/flavors.rs", 202, 311, ["C11"]),                   # SlidingBuffer, EIOReader
    ("de/flavors.rs", 346, 405, ["C11"]),                   # IOReader
    ("de/flavors.rs", 448, 576, ["C10"]),                   # CRC de
    ("de/mod.rs", 12, 100, ["C08", "C09", "C11"]),          # from_bytes*, from_io/eio
]

REL = [("<=", "<"), (">=", ">"), ("==", "!="), ("!=", "=="), (" < ", " <= "), (" > ", " >= ")]
ARITH = [(" + 1", ""), (" + 1", " + 2"), (" - 1", ""), (" + ", " - "), (" - ", " + ")]


def gen_mutants(only=None):
    out = []
    for (f, lo, hi, checks) in REGIONS:
        if only and only not in f:
            continue
        lines = open(f"{REPO}/{SRC}/{f}").read().split("\n")
        for ln in range(lo, hi + 1):
            line = lines[ln - 1]
            code = line.split("//")[0]
            s = code.strip()
            if not s or s.startswith("#") or s.startswith("///") or s.startswith("//"):
                continue
            cands = []
            for a, b in REL:
                for m in re.finditer(re.escape(a), code):
                    # do not touch generics / arrows / lifetimes
                    ctx = code[max(0, m.start() - 1): m.end() + 1]
                    if "->" in ctx or "=>" in ctx or "<'" in ctx:
                        continue
                    if a in (" < ", " > ") and ("<" in code and ">" in code and "::" in code and "if" not in code):
                        continue
                    cands.append((m.start(), a, b, "rel"))
            for a, b in ARITH:
                for m in re.finditer(re.escape(a), code):
                    if "'" in code[m.start():m.end() + 3] or "->" in code:
                        continue
                    if a in (" + ", " - ") and code[m.end():m.end() + 1].isdigit() and (a + "1") in code[m.start():m.end() + 1]:
                        pass
                    cands.append((m.start(), a, b, "arith"))
            # constants
            for a, b in [(" = 0;", " = 1;"), ("(0)", "(1)"), ("[0; 1]", "[0; 2]"), ("&& ", "|| "), ("|| ", "&& ")]:
                for m in re.finditer(re.escape(a), code):
                    cands.append((m.start(), a, b, "const"))
            # statement deletion: simple statements ending in ';' (assignments / calls, no let/return)
            if s.endswith(";") and not s.startswith(("let ", "return", "use ", "pub ", "type ", "}", "impl", "fn ")) and "?" not in s and s.count("(") == s.count(")"):
                cands.append((-1, s, "/* deleted */", "delete"))
            # drop a '?' after map_err(...) -> .ok()  (error swallowed)
            if s.endswith("?;") and "map_err" in s:
                cands.append((-2, "?;", ".ok();", "swallow"))
            for (pos, a, b, kind) in cands:
                if pos == -1:
                    new = line.replace(s, "{ }" if False else "", 1) if False else line[: len(line) - len(line.lstrip())] + "();"
                elif pos == -2:
                    idx = line.rfind("?;")
                    new = line[:idx] + ".ok();"
                else:
                    new = line[:pos] + b + line[pos + len(a):]
                if new == line:
                    continue
                out.append({"file": f, "line": ln, "kind": kind, "from": a if pos >= 0 else s, "to": b,
                            "original": line.strip(), "mutated": new.strip(), "checks": checks, "_new": new})
    # de-duplicate
    seen = set(); uniq = []
    for m in out:
        k = (m["file"], m["line"], m["_new"])
        if k not in seen:
            seen.add(k); uniq.append(m)
    return uniq


def sh(cmd, cwd=None, timeout=1800):
    # own process group, so that a timeout can kill the whole tree (cargo -> test binaries)
    p = subprocess.Popen(cmd, shell=True, cwd=cwd, stdout=subprocess.PIPE, stderr=subprocess.STDOUT, text=True,
                         start_new_session=True)
    try:
        out, _ = p.communicate(timeout=timeout)
    except subprocess.TimeoutExpired:
        import signal
        os.killpg(p.pid, signal.SIGKILL)
        p.communicate()
        raise
    return p.returncode, out


def setup_worker(i):
    w = f"{ROOT}/w{i}"
    shutil.rmtree(w, ignore_errors=True)
    os.makedirs(w + "/replays")
    sh(f"git -C {REPO} worktree prune")
    rc, o = sh(f"git -C {REPO} worktree add --detach -q {w}/repo HEAD")
    assert rc == 0, o
    sh(f"rsync -a --exclude 'sim/target*' --exclude 'replays/*' --exclude '.git' {VERIF}/ {w}/verif/")
    sh(f"sed -i 's#/repo/source/postcard#{w}/repo/source/postcard#' {w}/verif/sim/Cargo.toml")
    rc, o = sh(f"{w}/verif/check build")
    assert rc == 0, o[-2000:]
    rc, o = sh("cargo test --workspace --no-fail-fast --offline", cwd=f"{w}/repo")
    assert rc == 0, o[-2000:]
    return w


def run_mutant(w, m):
    path = f"{w}/repo/{SRC}/{m['file']}"
    orig = open(path).read()
    lines = orig.split("\n")
    assert lines[m["line"] - 1].strip() == m["original"], (m, lines[m["line"] - 1])
    lines[m["line"] - 1] = m["_new"]
    open(path, "w").write("\n".join(lines))
    res = {k: v for k, v in m.items() if not k.startswith("_")}
    try:
        try:
            rc, o = sh("cargo test --workspace --no-fail-fast --offline", cwd=f"{w}/repo", timeout=600)
        except subprocess.TimeoutExpired:
            res["status"] = "killed_by_suite"
            res["note"] = "the repository's own tests did not terminate within 10 minutes"
            return res
        if "error: could not compile" in o or "error[E" in o:
            res["status"] = "uncompilable"
            return res
        if rc != 0:
            res["status"] = "killed_by_suite"
            return res
        codes = {}
        det = False
        for cid in m["checks"]:
            sh(f"rm -f {w}/replays/*.json")
            rc, o = sh(f"{w}/verif/check {cid} quick --no-evidence --replay-dir {w}/replays")
            codes[cid] = rc
            if rc == 1:
                det = True
                ml = [l for l in o.split("\n") if l.startswith("minimised")]
                res.setdefault("detail", {})[cid] = (ml[0][:300] if ml else "")
                break  # one detection is enough
            if rc == 2:
                if "building the simulator" in o:
                    res["status"] = "uncompilable"
                    res["exit_codes"] = codes
                    return res
        res["exit_codes"] = codes
        if det:
            res["status"] = "detected"
        elif any(v == 2 for v in codes.values()):
            res["status"] = "harness_error"
        else:
            res["status"] = "survived"
        return res
    finally:
        open(path, "w").write(orig)


def main():
    ap = argparse.ArgumentParser()
    ap.add_argument("--workers", type=int, default=3)
    ap.add_argument("--limit", type=int, default=0)
    ap.add_argument("--out", default=f"{VERIF}/seeded/mutation_sweep.jsonl")
    ap.add_argument("--only", default=None)
    ap.add_argument("--list", action="store_true")
    a = ap.parse_args()
    muts = gen_mutants(a.only)
    if a.limit:
        # spread over the list
        step = max(1, len(muts) // a.limit)
        muts = muts[::step][: a.limit]
    if a.list:
        for m in muts:
            print(f"{m['file']}:{m['line']} [{m['kind']}] {m['original']}  ==>  {m['mutated']}")
        print(len(muts), "mutants")
        return
    done = set()
    if os.path.exists(a.out):
        for l in open(a.out):
            r = json.loads(l)
            done.add((r["file"], r["line"], r["mutated"]))
    todo = [m for m in muts if (m["file"], m["line"], m["mutated"]) not in done]
    print(f"{len(muts)} mutants, {len(todo)} to run, {a.workers} workers", flush=True)
    q = queue.Queue()
    for m in todo:
        q.put(m)
    lock = threading.Lock()

    def worker(i):
        w = setup_worker(i)
        while True:
            try:
                m = q.get_nowait()
            except queue.Empty:
                break
            t0 = time.time()
            try:
                r = run_mutant(w, m)
            except Exception as e:  # noqa
                r = {k: v for k, v in m.items() if not k.startswith("_")}
                r["status"] = "harness_error"
                r["error"] = str(e)[:300]
            r["seconds"] = round(time.time() - t0, 1)
            with lock:
                with open(a.out, "a") as f:
                    f.write(json.dumps(r) + "\n")
                print(f"{r['status']:16} {r['file']}:{r['line']} {r['mutated'][:90]}", flush=True)
        sh(f"git -C {REPO} worktree remove --force {w}/repo")
        shutil.rmtree(w, ignore_errors=True)

    ts = [threading.Thread(target=worker, args=(i,)) for i in range(a.workers)]
    for t in ts:
        t.start()
    for t in ts:
        t.join()
    sh(f"git -C {REPO} worktree prune")


if __name__ == "__main__":
    main()
