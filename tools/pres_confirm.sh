#!/bin/bash
# usage: pres_confirm.sh <worktree> <p-dir-name> <id>
# A property-PRESERVING change: the existing suite passes with it and every quick check must stay silent.
set -u
wt="$1"; m="$2"; sid="$3"
md="$wt/preserving/$m"
[ -f "$md/patch.diff" ] || { echo "no patch"; exit 2; }
cd "$wt" || exit 2
git checkout -q -- source 2>/dev/null; git clean -fdq source/postcard/tests
git apply --check "$md/patch.diff" || { echo "patch does not apply"; exit 2; }
git apply "$md/patch.diff"
suite=$(cargo test --workspace --no-fail-fast --offline 2>&1 | grep -E "^test result" | awk '{p+=$4; f+=$6} END {print p" passed "f" failed"}')
demo="n/a"
if [ -f "$md/demo.rs" ]; then
  cp "$md/demo.rs" source/postcard/tests/pres_demo.rs
  demo=$(cargo test --offline -p postcard --features use-std,use-crc --test pres_demo 2>&1 | grep -E "^test result" | tail -1)
  rm -f source/postcard/tests/pres_demo.rs
fi
git checkout -q -- source
echo "suite with change: $suite ; agent's property demo with change: $demo"
cd /repo || exit 2
[ -z "$(git status --porcelain)" ] || { echo "/repo not clean"; exit 2; }
git apply "$md/patch.diff" || exit 2
results=""
for id in C05 C08 C09 C10 C11; do
  out=$(/verif/check $id quick --no-evidence --replay-dir /tmp/mutreplays 2>&1); rc=$?
  line=$(echo "$out" | grep -E '^(minimised|harness)' | head -1 | cut -c1-400)
  echo "  $id exit=$rc $line"
  results="$results $id=$rc"
done
git checkout -- .
mkdir -p /verif/seeded/preserving/$sid
cp "$md/patch.diff" /verif/seeded/preserving/$sid/patch.diff
[ -f "$md/NOTES.md" ] && cp "$md/NOTES.md" /verif/seeded/preserving/$sid/NOTES.md
[ -f "$md/demo.rs" ] && cp "$md/demo.rs" /verif/seeded/preserving/$sid/demo.rs
python3 - "$sid" "$suite" "$demo" "$results" <<'PY'
import json,sys
sid,suite,demo,res=sys.argv[1:5]
checks={k:int(v) for k,v in (x.split('=') for x in res.split())}
meta={"id":sid,"kind":"property-preserving change (specificity test): every check must stay silent",
 "source":"independent sub-agent given the five property statements and a scratch worktree",
 "existing_suite_with_change":suite,"agents_property_demo_with_change":demo,
 "quick_checks_exit_codes_with_change_applied_to_repo":checks,
 "all_silent":all(v==0 for v in checks.values())}
json.dump(meta,open(f'/verif/seeded/preserving/{sid}/meta.json','w'),indent=1)
print("all silent:",meta["all_silent"])
PY
