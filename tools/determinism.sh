#!/bin/bash
# Proves the simulator deterministic: for each scenario, several VERIF_SEED values, each executed
# in separate processes at worker counts 1, 4 and 16 (twice at 16); the merged event-log digest and
# every evidence counter must be identical. Exit 0 = all identical, 2 = divergence (harness bug).
set -u
cd "$(dirname "$0")/.."
./check build || exit 2
RUNS=${RUNS:-4000}
SEEDS=${SEEDS:-"1 2 3 20261003 987654321"}
tmp=$(mktemp -d /tmp/pcsim-det.XXXXXX)
bad=0
for BIN in sim/target/release/pcsim sim/target-plain/plain/pcsim sim/target-eio04/release/pcsim; do
[ "$BIN" != sim/target/release/pcsim ] && SEEDS="7"
echo "== $BIN"
for id in C05 C08 C09 C10 C11; do
  runs=$RUNS; [ $id = C10 ] && runs=$((RUNS/10)); [ $id = C05 ] && runs=$((RUNS/2))
  for seed in $SEEDS; do
    ref=""
    for th in 1 4 16 16; do
      f="$tmp/$id-$seed-$th-$RANDOM.json"
      VERIF_SEED=$seed $BIN run $id quick --runs $runs --threads $th --evidence "$f" >/dev/null 2>&1
      rc=$?
      if [ $rc -ne 0 ]; then echo "DIVERGENCE? $id seed=$seed threads=$th exit=$rc"; bad=1; continue; fi
      h=$(python3 - "$f" <<'PY'
import json,sys,hashlib
e=json.load(open(sys.argv[1]))
e.pop('wall_s',None)
c=e['coverage']
for k in ('runs_per_hour','seeds_per_hour','threads','slowest_run'): c.pop(k,None)   # timing / configuration, not results
print(hashlib.sha256(json.dumps(e,sort_keys=True).encode()).hexdigest()[:16], c['log_digest'])
PY
)
      if [ -z "$ref" ]; then ref="$h"; elif [ "$ref" != "$h" ]; then echo "DIVERGENCE $id seed=$seed threads=$th: $h vs $ref"; bad=1; fi
    done
    echo "$id seed=$seed runs=$runs: $ref"
  done
done
done
rm -rf "$tmp"
[ $bad -eq 0 ] && echo "determinism: all runs identical across processes and worker counts" || exit 2
